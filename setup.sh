#!/bin/bash
# offline setup: make sure hypothesis (and the repo's own deps) import from /venv
set -e
PY=/venv/bin/python
if ! $PY -c "import hypothesis" 2>/dev/null; then
  /venv/bin/pip install --no-index --find-links /opt/veriftools/wheels hypothesis
fi
$PY - <<'PYEOF'
import sys
sys.path.insert(0, "/repo")
import hypothesis, yaml, fibertree
assert fibertree.__file__.startswith("/repo/"), fibertree.__file__
print("setup ok: hypothesis", hypothesis.__version__)
PYEOF
