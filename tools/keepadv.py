#!/usr/bin/env python3
"""tools/keepadv.py Cxx k "<what it needs>" check1 [!check2...]  -- file a confirmed white-box survivor
(/tmp/adv-out/Cxx/survivor<k>.diff, demo<k>.py) under seeded/Cxx-<next>"""
import json, os, re, shutil, sys
pid, k, needs = sys.argv[1], sys.argv[2], sys.argv[3]
caught = sys.argv[4:]
src = os.environ.get("ADV_OUT", "/tmp/adv-out") + f"/{pid}"
n = 1 + max([int(m.group(1)) for x in os.listdir("/verif/seeded") if (m := re.fullmatch(pid + r"-(\d+)", x))] or [0])
dst = f"/verif/seeded/{pid}-{n}"
os.makedirs(dst)
shutil.copy(f"{src}/survivor{k}.diff", f"{dst}/patch.diff")
if os.path.exists(f"{src}/demo{k}.py"):
    shutil.copy(f"{src}/demo{k}.py", f"{dst}/demo.py")
notes = open(f"{src}/notes.md").read()
open(f"{dst}/notes.md", "w").write(f"(white-box adversary notes for {pid}; this change is survivor{k})\n\n" + notes)
files = sorted({l.split()[1].split("/", 1)[1] for l in open(f"{dst}/patch.diff") if l.startswith("+++ ")})
meta = {
    "property": pid,
    "origin": "white-box adversary sub-agent: it read the check's code (tools/ADVERSARY_BRIEF.md) and looked for a change "
              "that breaks the property, keeps the pinned tests passing and left the check of that time green",
    "files_changed": files,
    "needs_to_manifest": needs,
    "confirmed": {"pinned_tests_still_pass": True, "demo_exit_unchanged": 0, "demo_exit_changed": 1,
                  "how": "tools/seedrun.sh (scratch copy of /repo under /tmp, patch applied there, tools/baseline.sh, demo "
                         "before and after, quick tier of the listed checks with VERIF_REPO pointing at the copy)"},
    "detected_by": [c for c in caught if not c.startswith("!")],
    "not_detected_by": [c[1:] for c in caught if c.startswith("!")],
}
json.dump(meta, open(f"{dst}/meta.json", "w"), indent=1)
print("kept", dst, meta["detected_by"], meta["not_detected_by"])
