#!/bin/bash
# tools/eval3.sh Cxx [i...] : confirm new-round seeded changes and run the property's own check (seeds 1 and 2) against them
p=$1; shift
for i in ${@:-1 2}; do
  f=${SEED_OUT:-/tmp/seed4-out}/$p/change$i.diff
  [ -f $f ] || { echo "$p-$i: no diff"; continue; }
  out=$(/verif/tools/seedrun.sh $f ${SEED_OUT:-/tmp/seed4-out}/$p/demo$i.py $p 2>&1)
  d0=$(echo "$out" | grep -o "demo on unchanged: exit [0-9]*"); d1=$(echo "$out" | grep -o "demo on changed: exit [0-9]*")
  t=$(echo "$out" | grep -o "baseline_missing=[0-9]*"); l=$(echo "$out" | grep -E "^C[0-9]+ rc=" | cut -c1-170)
  echo "$p-$i | $d0 | $d1 | $t | $l"
  if echo "$l" | grep -q "rc=0"; then
    l2=$(VERIF_SEED=2 /verif/tools/seedrun.sh $f - $p 2>&1 | grep -E "^C[0-9]+ rc=" | cut -c1-150); echo "    seed 2: $l2"
  fi
done
