#!/bin/bash
# tools/run_all.sh <tier> [seed...] : run every registered check, print one line each
tier=${1:-quick}; shift
seeds=${@:-1}
cd "$(dirname "$0")/.."
for s in $seeds; do
for p in $(python3 -c "import json;print(' '.join(c['property_id'] for c in json.load(open('MANIFEST.json'))['checks']))"); do
  out=$(VERIF_SEED=$s VERIF_NO_EVIDENCE=1 ./check $p --tier $tier 2>&1); rc=$?
  echo "seed=$s $p rc=$rc $(echo "$out" | grep -E 'OK property|VIOLATION|HARNESS|KNOWN-FINDING' | head -3 | cut -c1-160 | tr '\n' '|')"
done; done
