#!/usr/bin/env python3
"""regenerate the seeded-change table in DESIGN.md from seeded/*/meta.json"""
import glob, json, os, re
V = os.path.dirname(os.path.dirname(os.path.abspath(__file__)))
rows = ["| change | origin | files | needs to manifest | caught by | not caught by |", "|---|---|---|---|---|---|"]
for d in sorted(glob.glob(V + "/seeded/*/")):
    m = json.load(open(d + "meta.json"))
    name = os.path.basename(d.rstrip("/"))
    origin = "white-box (7.7)" if m["origin"].startswith("white-box") else \
        "independent, round 3" if "third round" in m["origin"] else \
        "independent, round 2" if "second round" in m["origin"] else "independent, round 1"
    if m.get("superseded_by"):
        rows.append(f"| {name} | {origin} | {', '.join(x.replace('fibertree/', '') for x in m['files_changed'])} | "
                    f"{m['needs_to_manifest']} | (no longer breaks the property: {m['superseded_by']}) | - |")
        continue
    rows.append(f"| {name} | {origin} | {', '.join(x.replace('fibertree/', '') for x in m['files_changed'])} | {m['needs_to_manifest']} | "
                f"{'; '.join(m['detected_by']) or '-'} | {'; '.join(m['not_detected_by']) or '-'} |")
p = V + "/DESIGN.md"
s = open(p).read()
s = re.sub(r"<!-- SEEDTABLE BEGIN -->.*<!-- SEEDTABLE END -->", "<!-- SEEDTABLE BEGIN -->\n" + "\n".join(rows) + "\n<!-- SEEDTABLE END -->", s, flags=re.S)
open(p, "w").write(s)
print(len(rows) - 2, "rows")
