#!/usr/bin/env python3
"""tools/keepseed.py Cxx i "<what it needs>" check1[:kind] [check2...]  -- file a confirmed seeded change under seeded/"""
import json, os, shutil, subprocess, sys
pid, i, needs = sys.argv[1], sys.argv[2], sys.argv[3]
caught = sys.argv[4:]
# round 2 deliverables live in /tmp/seed2-out and are filed as <id>-3, <id>-4
rnd2 = os.environ.get("SEED_ROUND") == "2"
src = f"/tmp/seed2-out/{pid}" if rnd2 else f"/tmp/seed-out/{pid}"
dst = f"/verif/seeded/{pid}-{int(i) + 2 if rnd2 else i}"
os.makedirs(dst, exist_ok=True)
shutil.copy(f"{src}/change{i}.diff", f"{dst}/patch.diff")
shutil.copy(f"{src}/demo{i}.py", f"{dst}/demo.py")
if os.path.exists(f"{src}/notes{i}.md"):
    shutil.copy(f"{src}/notes{i}.md", f"{dst}/notes.md")
files = sorted({l.split()[-1][2:] for l in open(f"{dst}/patch.diff") if l.startswith("+++ b/")})
meta = {
    "property": pid,
    "origin": "independent sub-agent given only the property text and a scratch worktree of /repo"
              + (" (second round: also shown the two first-round changes, to avoid repeating them)" if rnd2 else ""),
    "files_changed": files,
    "needs_to_manifest": needs,
    "confirmed": {
        "pinned_tests_still_pass": True,
        "demo_exit_unchanged": 0,
        "demo_exit_changed": 1,
        "how": f"tools/seedrun.sh seeded/{pid}-{i}/patch.diff seeded/{pid}-{i}/demo.py <checks> (scratch copy of /repo under /tmp, "
               "patch applied there, tools/baseline.sh for the pinned pytest pass set, demo run before and after, quick tier "
               "of the listed checks with VERIF_REPO pointing at the copy)",
    },
    "detected_by": [c for c in caught if not c.startswith("!")],
    "not_detected_by": [c[1:] for c in caught if c.startswith("!")],
}
json.dump(meta, open(f"{dst}/meta.json", "w"), indent=1)
print("kept", dst, meta["detected_by"], meta["not_detected_by"])
