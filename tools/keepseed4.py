#!/usr/bin/env python3
"""tools/keepseed4.py Cxx i "<what it needs>" check1 [!check2...]  -- file a confirmed fourth-round seeded change
(/tmp/seed4-out/Cxx/change<i>.diff, demo<i>.py, notes<i>.md) under seeded/Cxx-<next free number>"""
import json, os, re, shutil, sys
pid, i, needs = sys.argv[1], sys.argv[2], sys.argv[3]
caught = sys.argv[4:]
src = f"/tmp/seed4-out/{pid}"
n = 1 + max([int(m.group(1)) for x in os.listdir("/verif/seeded") if (m := re.fullmatch(pid + r"-(\d+)", x))] or [0])
dst = f"/verif/seeded/{pid}-{n}"
os.makedirs(dst)
shutil.copy(f"{src}/change{i}.diff", f"{dst}/patch.diff")
shutil.copy(f"{src}/demo{i}.py", f"{dst}/demo.py")
if os.path.exists(f"{src}/notes{i}.md"):
    shutil.copy(f"{src}/notes{i}.md", f"{dst}/notes.md")
files = sorted({l.split()[-1][2:] for l in open(f"{dst}/patch.diff") if l.startswith("+++ b/")})
meta = {
    "property": pid,
    "origin": "independent sub-agent given only the property text and a scratch worktree of /repo (fourth round: also given one-line descriptions of "
              "all earlier changes for this property, to avoid repeating them)",
    "files_changed": files,
    "needs_to_manifest": needs,
    "confirmed": {"pinned_tests_still_pass": True, "demo_exit_unchanged": 0, "demo_exit_changed": 1,
                  "how": "tools/seedrun.sh (scratch copy of /repo under /tmp, patch applied there, tools/baseline.sh for the "
                         "pinned pytest pass set, demo before and after, quick tier of the listed checks with VERIF_REPO "
                         "pointing at the copy)"},
    "detected_by": [c for c in caught if not c.startswith("!")],
    "not_detected_by": [c[1:] for c in caught if c.startswith("!")],
}
json.dump(meta, open(f"{dst}/meta.json", "w"), indent=1)
print("kept", dst, meta["detected_by"], meta["not_detected_by"])
