#!/bin/bash
# tools/seedrun.sh <patch.diff> <demo.py|-> <prop> [prop...]
# Confirms a seeded change in a scratch copy of /repo (tests still pass, demo fails with / passes without),
# then runs the given checks (quick tier) against the changed copy. Nothing touches /repo.
patch=$1; demo=$2; shift 2
d=$(mktemp -d /tmp/ft-seed-XXXX)
rsync -a --exclude .git --exclude tmp /repo/ $d/
if [ "$demo" != "-" ]; then
  (cd $d && PYTHONPATH=$d /venv/bin/python $demo >/dev/null 2>&1); echo "demo on unchanged: exit $?"
fi
(cd $d && patch -p1 -s < $patch) || { echo "PATCH FAILED"; rm -rf $d; exit 2; }
if [ "$demo" != "-" ]; then
  out=$(cd $d && PYTHONPATH=$d /venv/bin/python $demo 2>&1); rc=$?; echo "$out" | tail -2; echo "demo on changed: exit $rc"
fi
echo -n "pinned tests with change: "; /verif/tools/baseline.sh $d | head -3 | tr '\n' ' '; echo
for p in "$@"; do
  out=$(VERIF_REPO=$d VERIF_NO_EVIDENCE=1 /verif/check $p --tier quick 2>&1); rc=$?
  echo "$p rc=$rc $(echo "$out" | grep -E '^violation|OK property|HARNESS' | head -1 | cut -c1-260)"
done
rm -rf $d
