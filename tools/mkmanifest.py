#!/usr/bin/env python3
"""Regenerate /verif/MANIFEST.json from the property modules that exist."""
import json
import os
import re

VERIF = os.path.dirname(os.path.dirname(os.path.abspath(__file__)))

# per-property manifest texts: (technique, level text, level note)
TEXT = {
    "C01": ("Hypothesis PBT over generated operation histories (selector-resolved op lists = stateful testing), "
            "well-formedness invariant after every step",
            "Generated histories of up to 25 (60 thorough) public mutators on owned tensors (every construction route) and "
            "unowned fibers; structural well-formedness checked on the raw coords/payloads lists after every single "
            "step; order rejections must leave the snapshot unchanged.",
            "Trusts the op interpreter's knowledge of which calls are documented rejections; depth<=3, shapes<=6; unowned "
            "trees depth<=2 (see DESIGN section 5)."),
    "C02": ("Hypothesis PBT over generated histories mixing mutators, transforms-as-rules and read-only operations; "
            "rank-list invariant after every step",
            "Generated histories of up to 20 steps on tensors from every constructor: insertions at any depth, populate "
            "loops, dense reference iteration, fiber assignment, clear, interleaved with transforms that replace the tensor "
            "under test (splits, swizzle, swap, flatten/unflatten, merge, updates, YAML, deepcopy) and read-only "
            "operations; rank lists compared with a raw walk (ids, owners, chaining) plus Format.getRank and clearStats.",
            "After a split the history only writes at existing points; histories continue on results with integer "
            "coordinates and authoritative shape."),
    "C03": ("Hypothesis PBT over accessor histories vs a dict model (stateful testing with aliasing handles)",
            "Generated histories of up to 30 reads / references / writes / handle re-use / position lookups / start_pos "
            "shortcuts on trees of depth 1-3; the full content is compared with a dict model after every step and every "
            "read must leave the raw snapshot and rank lists unchanged; rank-0 tensors in a second part.",
            "Trusts the dict model and the raw snapshot observer; depth<=3, shapes<=5; start_pos restricted to legal values."),
    "C04": ("Hypothesis PBT + exhaustive small domain: set-algebra oracle over presented coordinates, payload identity",
            "Generated k<=4 operand sets (leaf / 2-level, owned / unowned, C / U format, int and tuple coordinates of equal "
            "and mixed arity) checked against coordinate-set algebra, payload identity (is), fresh defaults, masks, "
            "re-iteration, operators asked again after an in-place update of an element, and operand/rank-list immutability; all pairs of leaf fibers over shape<=2 (quick) or <=3 "
            "(thorough) enumerated completely.",
            "Trusts the builders and the per-coordinate state model; shapes<=7, k<=4; U format on owned fibers and on unowned "
            "leaf fibers; a default per operand."),
    "C05": ("Hypothesis PBT: populate loops with generated body plans vs a content-override model, observed at every yield",
            "Generated destination/source pairs of depth 1-3 (every destination route, source format C/U, explicit defaults, "
            "empty sub-fibers) and loop-body plans; offered sequence, payload/reference identity, content override, "
            "leftover elements, untouched elements, source immutability, well-formedness and rank consistency at every "
            "yield and after the loop.",
            "Source and destination share depth and shape (defaults may differ); unowned destinations depth<=2; start_pos only "
            "1-level; lazy sources (& | ^ - project) in a one-level part."),
    "C06": ("Hypothesis PBT + exhaustive dataflow enumeration: dense einsum oracle, metamorphic equality across dataflows",
            "Generated einsum-like kernels (1-3 operands, 1-3 indices) interpreted strictly in the library idiom under 2-4 "
            "drawn dataflows (loop order, uniform tiling, nested / flat two-finger or leader-follower intersection); 13 "
            "named expressions x every loop order x every tile x 3 styles enumerated; output content compared with the "
            "dense evaluation and across dataflows.",
            "Trusts the kernel interpreter (vf/kernels.py) to be a faithful rendering of the idiom; operand default 0; "
            "shapes<=4."),
    "C07": ("Hypothesis PBT: traversal requests vs list model (presented / dense), payload identity, snapshot deltas",
            "Generated fibers (leaf / 2-level, C / U format, active ranges, explicit defaults) with 1-5 traversal requests "
            "each, covering all iterators, reference forms, dense co-iteration, project / prune, lazy re-iteration and interleaved traversals of one fiber, "
            "compared with a list model; tree snapshots before/after.",
            "Trusts the builders; start_pos restricted to legal shortcuts; a U-format fiber gets an active range only if it "
            "encloses all stored elements; shapes<=8."),
    "C08": ("Hypothesis PBT: partitions recomputed from the element list (boundary / halo / active-range model)",
            "Generated fibers and tensors (depth 1-3, explicit defaults, empty sub-fibers, active ranges) x all six split "
            "kinds x halos x relativeCoords x split depth x optional re-split of the lower rank; fiber level compared "
            "structurally (upper coordinates, partition elements, payloads, active ranges), tensor level as content per "
            "fiber of the rank plus active ranges; operand immutability.",
            "Compressed ranks only; re-split only of absolute-coordinate partitions; steps/sizes >= 1."),
    "C09": ("Hypothesis PBT: content image under the stated coordinate map, inverse compositions (metamorphic)",
            "Generated tensors of depth 2-4 (explicit defaults, empty sub-fibers, estimated and authoritative shapes, every "
            "route) under swizzle / swap / flatten (tuple, pair, linear, multi-level) / merge (absolute, relative; sum, max, "
            "first) / flatten-unflatten / split-then-absolute-flatten; result content compared with the model image, "
            "inverse compositions restore content, rank ids and ==; results well-formed and rank-consistent; operand intact.",
            "Shapes<=4 per rank, <=10 points; linear flattening only with authoritative shapes."),
    "C10": ("Hypothesis PBT: before/after snapshots, object-identity-set disjointness, follow-up mutation on both sides",
            "Generated tensors / fibers x 32 value-returning operations (Tensor and Fiber forms) and 12 read-only operation "
            "groups; operand snapshot, rank lists and attribute values compared before/after; id-sets of all reachable "
            "fibers, lists, boxes, ranks, attribute objects of result and operand must be disjoint; every leaf box of the "
            "result then of the operand is mutated and the other side re-checked; images rendered twice.",
            "Aliasing demanded only of the listed operations; images rendered for a third of the image cases (cost)."),
    "C11": ("Exhaustive operator matrix + Hypothesis PBT on fiber pairs vs Python operators on the unboxed values",
            "All 131 cells of the operator x operand-kind matrix enumerated with a fixed value table and sampled with drawn "
            "ints / dyadic floats; result value and type, operand immutability, same-box identity for in-place forms; "
            "fiber + * += *= against a dict model incl. disjoint / empty / explicit-default operands.",
            "Operators taken from the Payload / CoordPayload class docstrings; fibers with default 0 and a declared shape."),
    "C12": ("Hypothesis PBT: representation-fuzzed and single-leaf-edited tree pairs/triples vs dict content model",
            "Generated pairs/triples of trees derived from one content (equal by construction, or differing in one leaf) "
            "compared with an independent point->value model; no exhaustive claim.",
            "Trusts the TreeSpec->Fiber/Tensor builders (public constructors only) and the dict model in vf/model.py; "
            "depth<=3, shapes<=7."),
    "C13": ("Hypothesis PBT: round-trip oracles (nest -> tensor -> nest, dump -> load, dict form) and seeded fromRandom",
            "Generated rectangular nests of depth 1-4 (all-default, non-zero defaults, floats) and tensors derived by "
            "swizzle / flatten / split chains (tuple coordinates, tuple shapes); content, shape, rank ids, names checked "
            "after every conversion; rank-0 enumerated; fromRandom reproducibility, bounds and density-1 fill.",
            "A tensor's YAML file must bring back its leaf default (P44, repaired); the fiber YAML / dict forms have no place for a default: it is passed again (default=) where the loader takes one."),
    "C14": ("Hypothesis PBT: expected-attribute table written from the docstrings, coordinate-in-shape and "
            "iterActive==iterOccupancy invariants",
            "Generated tensors (authoritative / estimated shapes, non-zero defaults, per-rank formats, mutability, every "
            "constructor) x 16 constructors / transforms: rank ids, re-arranged authoritative shape, default, formats, "
            "mutability compared with the table; every stored coordinate inside the reported shape and active range; a "
            "second part checks rank id and active range of 15 kinds of lazy fibers and the adoption of unowned fibers.",
            "Relative merges only on relative-coordinate splits (what the style is defined for); halo-free splits."),
    "C15": ("Hypothesis PBT over kernels x metrics configurations x session pre-histories: independent operation counters, "
            "on/off and fresh/after-history differential",
            "Generated kernels run with collection off, in a fresh session, and again after 0-3 earlier sessions (other "
            "kernels, matchRanks, associateShape, other flush thresholds; now and then given up with unconsumed in-memory traces); results and stored trees on vs off, Metrics.dump "
            "counts vs the interpreter's own counters, numIters vs bodies executed, consumable vs file rows, identical "
            "dump and byte-identical trace files fresh vs after history.",
            "Only the loop nest runs inside a session (operands prepared before); matchRanks closures never join two loop "
            "ranks of one kernel."),
    "C16": ("Hypothesis PBT + exhaustive small domain: recorded loop structure -> expected rows per trace role, "
            "threshold and file/consumable differential",
            "Generated kernels (1-4 loop ranks) and single-operator nests (iteration, two-finger and leader-follower "
            "intersection, populate with body plans, project) with every label 0-5 of every trace type registered as file "
            "and consumable; headers, one row per traced access, stamp order, point columns and fiber positions compared "
            "with a model built from the recorded execution; identical files for flush thresholds {2,3,5,1000}; all pairs "
            "of shape-3 fibers enumerated for a & b and z << a.",
            "Open finding P11 (positions count presented elements) is normalised on the four source-side roles only; "
            "destination rows of inserting populates are only required to be ordered and complete (as the statement says)."),
    "C17": ("Hypothesis PBT + exhaustive small domain: buffet window accounting, furthest-next-use reference and "
            "exhaustive optimal-replacement search, metamorphic relations",
            "Synthetic and kernel-derived traces, 1-3 bindings, all evict-on choices, capacities and line sizes; buffet "
            "and cache traffic compared with reference accounting; exhaustive minimum-fill search on small read-only "
            "cases; bounds, capacity monotonicity, intra-line permutation invariance; filterTrace and _combineTraces "
            "models; temporary files removed.",
            "Exact cache comparison skipped (bounds only) where pinned staging lines exceed capacity or same-stamp ties "
            "make the optimum ambiguous."),
    "C18": ("Hypothesis PBT + exhaustive small domain: footprint sums recomputed from a raw tree walk",
            "Generated tensors (depth 1-3, explicit defaults, empty sub-fibers, all build routes) x random per-rank format "
            "specifications with missing fields; every Format query compared with sums over a raw walk; all trees over "
            "tiny shapes x all C/U assignments enumerated with place-value bit widths; tensors without declared shape that grow after construction (stored fibers only).",
            "Trusts the raw walk of Fiber.coords/payloads and declared (authoritative) shapes; depth<=3, shapes<=5."),
    "C19": ("Hypothesis PBT: independent two-finger / skip-ahead / leader-follower counters and merge-cost model, "
            "batch-invariance metamorphic relation",
            "Generated sequences of 1-4 consecutive fiber pairs under 0-2 outer ranks, traced through a & b and fed to each "
            "model under four batchings; totals compared with an independent merge walk; numSwaps against a closed form "
            "(finite latency) and a priority-queue simulation (latency N), invariant under payload changes.",
            "Outer coordinates strictly increasing; swap tensors canonical (no empty sub-fibers)."),
    "C20": ("Exhaustive small tensors + Hypothesis PBT x all 3^depth descriptors: independent layout decoder and "
            "handle-API scan",
            "Every zero/non-zero pattern over small shapes and generated nests up to 70 wide, each under all 3^depth U/C/B "
            "descriptors with and without an imposed shape; output arrays decoded by a decoder written from the format "
            "descriptions, each encoded fiber scanned through its handle API, coordToHandle and getSize checked.",
            "Canonical fromUncompressed tensors with default 0; stub cache object; codec stdout suppressed."),
}


def main():
    props = [json.loads(l) for l in open(os.path.join(VERIF, "properties.jsonl"))]
    checks = []
    na = []
    for p in props:
        pid = p["id"]
        modpath = os.path.join(VERIF, "vf", "props", pid.lower() + ".py")
        if os.path.exists(modpath) and pid in TEXT:
            tech, text, note = TEXT[pid]
            src = open(modpath).read()
            m = re.search(r"^DESIGN_REF\s*=\s*['\"](.*)['\"]", src, re.M)
            checks.append({
                "property_id": pid,
                "quick_cmd": f"./check {pid} --tier quick",
                "thorough_cmd": f"./check {pid} --tier thorough",
                "evidence_file": f"evidence/{pid}.json",
                "replay_cmd_template": f"./check {pid} --replay {{path}}",
                "engine": "vf",
                "level_claimed": {"category": "exploration", "text": text,
                                  "design_ref": m.group(1) if m else f"DESIGN.md section 4, {pid}"},
                "level_note": note,
                "technique": tech,
            })
        else:
            na.append({"property_id": pid,
                       "reason": "check not built yet (property-based testing applies; see DESIGN.md section 4); "
                                 "not claimed until its check is registered"})
    man = {
        "version": 1,
        "setup_cmd": "./setup.sh",
        "hooks": {
            "guard": "FIBERTREE_PROJECT_FIBERTREE_VERIF",
            "enable": "no source hooks are needed: checks import /repo's working tree directly "
                      "(pure Python) and observe documented public attributes; the guard variable is set "
                      "by the runner but nothing in /repo reads it",
            "baseline_off_cmd": "cd /repo && /venv/bin/python -m pytest -ra -q -p no:cacheprovider --timeout=900 "
                                "--continue-on-collection-errors",
            "source_commits": [],
            "add_only": True,
        },
        "engines": [{"name": "vf", "path": "vf/run.py",
                     "serves_properties": [c["property_id"] for c in checks],
                     "kind_free_text": "Hypothesis-driven property-based testing runner (seeded, sharded over 16 "
                                       "processes in the thorough tier) with an independent pure-Python reference "
                                       "model, JSON replay files and a known-findings file"}],
        "checks": checks,
        "not_applicable": na,
        "notes": "Every check: exit 0 = held on everything explored (KNOWN-FINDING lines possible), exit 1 + "
                 "VIOLATION line, exit 2 = harness error. VERIF_SEED selects the Hypothesis seed.",
    }
    with open(os.path.join(VERIF, "MANIFEST.json"), "w") as f:
        json.dump(man, f, indent=1)
    print("checks:", [c["property_id"] for c in checks], "not claimed:", len(na))


if __name__ == "__main__":
    main()
