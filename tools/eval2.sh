#!/bin/bash
# tools/eval2.sh Cxx [extra checks...] : evaluate the two round-2 changes of a property
p=$1; shift
for i in 1 2; do
  [ -f /tmp/seed2-out/$p/change$i.diff ] || { echo "$p change$i: missing"; continue; }
  echo "== $p round2 change$i"
  /verif/tools/seedrun.sh /tmp/seed2-out/$p/change$i.diff /tmp/seed2-out/$p/demo$i.py $p "$@" 2>&1 | grep -E "^demo on|^pinned|rc=" | cut -c1-300
done
