#!/bin/bash
# tools/benrun.sh <patch.diff> [checks...] : run checks (default: all) against a scratch copy with a BENIGN change; any alarm is suspicious
patch=$1; shift
checks=${@:-$(python3 -c "import json;print(' '.join(c['property_id'] for c in json.load(open('/verif/MANIFEST.json'))['checks']))")}
d=$(mktemp -d /tmp/ft-ben-XXXX)
rsync -a --exclude .git --exclude tmp /repo/ $d/
(cd $d && patch -p1 -s < $patch) || { echo "PATCH FAILED $patch"; rm -rf $d; exit 2; }
echo -n "tests: "; /verif/tools/baseline.sh $d | head -1
echo $checks | tr ' ' '\n' | xargs -P 10 -I{} bash -c "out=\$(VERIF_REPO=$d VERIF_NO_EVIDENCE=1 /verif/check {} --tier quick 2>&1); rc=\$?; [ \$rc -ne 0 ] && echo \"ALARM {} rc=\$rc \$(echo \"\$out\" | grep -E '^violation|HARNESS' | head -1 | cut -c1-300)\"; true"
echo "done $patch"
rm -rf $d
