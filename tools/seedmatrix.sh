#!/bin/bash
# run every seeded change against the check of its own property (quick tier); all must be detected
cd "$(dirname "$0")/.."
fail=0
for d in seeded/*/; do
  n=$(basename $d); p=${n%%-*}
  out=$(tools/seedrun.sh $PWD/$d/patch.diff $PWD/$d/demo.py $p 2>&1)
  line=$(echo "$out" | grep "^$p rc=" | cut -c1-150)
  d0=$(echo "$out" | grep "demo on unchanged" ); d1=$(echo "$out" | grep "demo on changed"); t=$(echo "$out" | grep -o "baseline_missing=[0-9]*")
  echo "$n | $d0 | $d1 | $t | $line"
  echo "$line" | grep -q "rc=1" || fail=1
done
exit $fail
