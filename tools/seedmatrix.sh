#!/bin/bash
# run every seeded change against the check(s) recorded as detecting it (quick tier); each must be detected by at least one
# usage: tools/seedmatrix.sh [parallel jobs, default 5]   (env VERIF_SEED is passed on to the checks)
cd "$(dirname "$0")/.."
one() {
  d=$1; n=$(basename $d)
  if grep -q '"superseded_by"' $d/meta.json; then echo "$n | superseded (a later repair of the library removed the consequence of this change; see meta.json)"; return; fi
  checks=$(python3 -c "
import json,sys
m=json.load(open('$d/meta.json'))
print(' '.join(sorted({x.split()[0] for x in m['detected_by']})))")
  demo=$PWD/$d/demo.py; [ -f $demo ] || demo=-
  out=$(tools/seedrun.sh $PWD/$d/patch.diff $demo $checks 2>&1)
  lines=$(echo "$out" | grep -E "^C[0-9]+ rc=" | cut -c1-110 | tr '\n' '|')
  d0=$(echo "$out" | grep -o "demo on unchanged: exit [0-9]*" ); d1=$(echo "$out" | grep -o "demo on changed: exit [0-9]*"); t=$(echo "$out" | grep -o "baseline_missing=[0-9]*")
  ok=MISSED; echo "$lines" | grep -q "rc=1" && ok=caught
  echo "$n | $ok | $d0 | $d1 | $t | $lines"
}
export -f one
ls -d seeded/*/ | sed 's#/$##' | xargs -P ${1:-5} -I{} bash -c 'one {}'
