#!/bin/bash
# run every seeded change against the check(s) recorded as detecting it (quick tier); each must be detected by at least one
cd "$(dirname "$0")/.."
fail=0
for d in seeded/*/; do
  n=$(basename $d)
  checks=$(python3 -c "
import json,sys
m=json.load(open('$d/meta.json'))
print(' '.join(sorted({x.split()[0] for x in m['detected_by']})))")
  out=$(tools/seedrun.sh $PWD/$d/patch.diff $PWD/$d/demo.py $checks 2>&1)
  lines=$(echo "$out" | grep -E "^C[0-9]+ rc=" | cut -c1-110 | tr '\n' '|')
  d0=$(echo "$out" | grep -o "demo on unchanged: exit [0-9]*" ); d1=$(echo "$out" | grep -o "demo on changed: exit [0-9]*"); t=$(echo "$out" | grep -o "baseline_missing=[0-9]*")
  ok=MISSED; echo "$lines" | grep -q "rc=1" && ok=caught
  [ $ok = MISSED ] && fail=1
  echo "$n | $ok | $d0 | $d1 | $t | $lines"
done
exit $fail
