#!/bin/bash
# tools/mutrun.sh <prop> <python-edit-script | patch.diff> : run a check against a mutated scratch copy of /repo
# usage: tools/mutrun.sh C12 'fiber.py' 'old text' 'new text'
set -e
prop=$1; file=$2; old=$3; new=$4
d=$(mktemp -d /tmp/ft-mut-XXXX)
rsync -a --exclude .git --exclude tmp /repo/ $d/
/venv/bin/python - "$d/fibertree/$file" "$old" "$new" <<'PY'
import sys
p,old,new=sys.argv[1:4]
s=open(p).read()
assert s.count(old)>=1, "pattern not found"
s=s.replace(old,new,1)
open(p,'w').write(s)
PY
shift 4
VERIF_REPO=$d VERIF_NO_EVIDENCE=1 /verif/check $prop --tier quick "$@" 2>&1 | tail -4
rm -rf $d
