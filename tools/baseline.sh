#!/bin/bash
# run the pinned pytest suite in a repo dir (default /repo) and compare the set of passing tests with BASELINE.json
dir=${1:-/repo}
out=$(mktemp /tmp/junit-XXXX.xml)
(cd $dir && /venv/bin/python -m pytest -q -p no:cacheprovider --timeout=900 --continue-on-collection-errors --junitxml=$out >/dev/null 2>&1)
/venv/bin/python - $out <<'PY'
import json,sys,xml.etree.ElementTree as ET
base=set(json.load(open('/root/.vp/BASELINE.json'))['stable_pass'])
root=ET.parse(sys.argv[1]).getroot()
passed=set()
for tc in root.iter('testcase'):
    if not any(ch.tag in ('failure','error','skipped') for ch in tc):
        passed.add(f"{tc.get('classname')}::{tc.get('name')}")
missing=sorted(base-passed)
print(f"passed={len(passed)} baseline={len(base)} baseline_missing={len(missing)}")
for m in missing[:20]: print("  MISSING", m)
sys.exit(1 if missing else 0)
PY
rc=$?
rm -f $out
exit $rc
