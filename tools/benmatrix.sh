#!/bin/bash
# tools/benmatrix.sh [ids...] : run every check against every benign change kept under /verif/benign
# (a change made by an independent agent that alters behaviour the property leaves open). Any ALARM line
# not listed in benign/EXPECTED is an over-strict check.
cd /verif
for d in ${@:-$(ls benign | grep -v EXPECTED)}; do
  echo "=== $d"
  tools/benrun.sh /verif/benign/$d/patch.diff | grep -E "ALARM|PATCH|tests:"
done
