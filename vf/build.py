"""TreeSpec -> real Fiber / Tensor, through every public construction route."""

import copy
import os
import tempfile

from fibertree import Fiber, Payload, Tensor

from . import model

ROUTES = ["ref", "fiber", "uncompressed", "yaml", "deepcopy"]

_TMP = None


def tmpdir():
    global _TMP
    if _TMP is None or not os.path.isdir(_TMP):
        _TMP = tempfile.mkdtemp(prefix="vf-")
        import atexit
        import shutil
        atexit.register(shutil.rmtree, _TMP, True)
    return _TMP


def _shape(spec):
    return list(spec["shape"]) if spec.get("auth", True) else None


def _populate(t, tree, d, prefix=()):
    """Insert the spec's tree into tensor/fiber ``t`` through getPayloadRef."""
    for c, child in tree:
        c = model.tuplify(c)
        if d == 1:
            ref = t.getPayloadRef(*(prefix + (c,)))
            ref <<= child
        else:
            if len(child) == 0:
                t.getPayloadRef(*(prefix + (c,)))
            else:
                _populate(t, child, d - 1, prefix + (c,))


def nested_fiber(tree, d, shape, default, rank_ids=None):
    """Unowned nested Fiber built with the Fiber constructor."""
    coords = [model.tuplify(c) for c, _ in tree]
    sh = shape[0] if shape else None
    if d == 1:
        f = Fiber(coords, [ch for _, ch in tree], shape=sh, default=default)
    else:
        rest_ids = rank_ids[1:] if rank_ids else None
        payloads = [nested_fiber(ch, d - 1, shape[1:] if shape else None, default, rest_ids) for _, ch in tree]
        # the default of an interior fiber is a template of the next level (as Fiber._splitFiber does with
        # default=Fiber()), so that an unowned tree knows how deep it is even where it is empty
        f = Fiber(coords, payloads, shape=sh,
                  default=nested_fiber([], d - 1, shape[1:] if shape else None, default, rest_ids))
    if rank_ids:
        f.getRankAttrs().setId(rank_ids[0])
    return f


def build_fiber(spec, name_ranks=False):
    """Unowned fiber tree with local rank attributes."""
    return nested_fiber(spec["tree"], model.depth(spec), spec["shape"], spec["default"],
                        spec["rank_ids"] if name_ranks else None)


def build_tensor(spec, route="ref"):
    d = model.depth(spec)
    default = spec["default"]
    rank_ids = list(spec["rank_ids"])
    if route == "ref":
        t = Tensor(rank_ids=rank_ids, shape=_shape(spec), default=default)
        _populate(t, spec["tree"], d)
        return t
    if route == "fiber":
        # (without a declared shape the fibers carry none either, so the ranks really estimate theirs)
        f = nested_fiber(spec["tree"], d, _shape(spec), default)
        return Tensor.fromFiber(rank_ids, f, shape=_shape(spec), default=default)
    if route == "uncompressed":
        nest = model.dense(model.content(spec), spec["shape"], default)
        t = Tensor.fromUncompressed(rank_ids, nest, shape=_shape(spec), default=default)
        t.setMutable(True)
        # re-introduce the non-canonical parts by mutation
        _populate(t, spec["tree"], d)
        return t
    if route == "yaml":
        t = build_tensor(spec, "ref")
        path = os.path.join(tmpdir(), f"b{os.getpid()}.yaml")
        t.dump(path)
        try:
            t2 = Tensor.fromYAMLfile(path)
        finally:
            os.remove(path)
        return t2
    if route == "deepcopy":
        return copy.deepcopy(build_tensor(spec, "ref"))
    raise ValueError(route)


def leaf_fiber(coords, values, shape=None, default=0, rank_id=None, fmt=None, active=None, owned=False):
    """One-level fiber; owned => wrapped in a 1-rank tensor (root returned)."""
    if owned:
        t = Tensor(rank_ids=[rank_id or "K"], shape=[shape] if shape is not None else None, default=default)
        f = t.getRoot()
        for c, v in zip(coords, values):
            ref = f.getPayloadRef(c)
            ref <<= v
        if fmt:
            t.setFormat(rank_id or "K", fmt)
        if active is not None:
            f.setActive(tuple(active))
        return f
    f = Fiber(list(coords), list(values), shape=shape, default=default,
              active_range=tuple(active) if active is not None else None)
    if rank_id:
        f.getRankAttrs().setId(rank_id)
    if fmt:
        f.getRankAttrs().setFormat(fmt)
    return f
