"""C14 -- rank ids, shapes, defaults, formats and active ranges follow the data."""

import copy
import os
import random

from hypothesis import strategies as st

from fibertree import Fiber, Payload, Tensor

from .. import build, gen, model, observe, findings
from ..core import Part, Violation

ID = "C14"
RULE = ("Tensors of depth 1-3 with authoritative or estimated shape, zero / non-zero leaf default, a drawn per-rank "
        "format assignment (C/U) and mutability flag, built through every constructor, and one operation: a "
        "constructor check, the four splits / infix shorthands (depth, halos off), swizzle, swap, flatten (tuple / "
        "pair / linear, 1-2 levels), merge (absolute / relative), flatten->unflatten, Tensor.updateCoords / "
        "updatePayloads, deepcopy, YAML round trip; a second part draws lazy fibers (& | ^ - <<, intersection / union, "
        "project with rank_id and interval, prune, coiter*) and adoption of unowned fibers by Tensor.fromFiber. "
        "Oracle: a table written from the docstrings: rank ids (X -> X.1, X.0; list of merged ids; its inverse; the "
        "requested order), shape re-arranged the same way whenever getShape(authoritative=True) of the operand is "
        "not None, leaf default, formats of surviving ranks (split halves inherit; the format of a newly created merged rank is not specified), mutability; every "
        "stored coordinate inside the reported shape (component-wise for tuple shapes) and, for halo-free results, "
        "iterActive == iterOccupancy for every fiber; lazy fibers: rank id of the first operand (destination for <<) "
        "and the active range the operation defines; an adopted fiber reports its rank's id, shape and default. "
        "Non-trivial: non-zero default or a U rank or an authoritative non-cubic shape, and >=2 points. "
        "Distinct = SHA-1 of the case.")
ASSUMPTIONS = ["project is checked for the rank id only when the caller passes rank_id",
               "linear flattening only for authoritative shapes (asserted by the library)",
               "format U ranks are not split / iterated here: formats are carried attributes in this check"]

OPS = ["construct", "splitUniform", "splitEqual", "splitNonUniform", "splitUnEqual", "truediv", "floordiv", "swizzle",
       "swap", "flatten", "merge", "flatten_unflatten", "flatten_twice", "updateCoords", "updatePayloads", "deepcopy",
       "yaml", "fill_in_steps", "from_ragged", "split_swizzle", "split_swizzle", "flatten_elsewhere",
       "estimate_by_fibers", "flatten_deep", "flatten_deep", "merge_narrowed"]


@st.composite
def cases(draw):
    op = draw(st.sampled_from(OPS))
    d = draw(st.sampled_from([1, 2, 2, 3, 3, 4]))
    if op in ("flatten_elsewhere", "flatten_deep"):
        d = 4
    if op == "merge_narrowed":
        d = 3
    if op in ("flatten", "flatten_unflatten", "merge", "flatten_twice"):
        d = draw(st.sampled_from([2, 3, 3, 4, 4]))      # (several levels need several ranks)
    c = {"op": op, "how": draw(st.sampled_from(["ref", "fiber", "fiber", "uncompressed", "yaml", "deepcopy", "random",
                                                 "populated"])),
         "sel": draw(st.lists(st.integers(0, 9), min_size=4, max_size=4)),
         "perm": list(draw(st.permutations([0, 1, 2, 3]))),
         "perm5": list(draw(st.permutations([0, 1, 2, 3, 4]))),
         "style": draw(st.sampled_from(["pair", "linear", "tuple", "pair", "linear"])),
         "mstyle": draw(st.sampled_from(["absolute", "relative"])),
         "levels": draw(st.sampled_from([1, 2, 3, 3, 2])),
         "fmts": [draw(st.sampled_from(["C", "C", "U"])) for _ in range(d)],
         "mutable": draw(st.booleans()), "seed": draw(st.integers(0, 99))}
    shape = [draw(st.integers(1, 5 if d < 4 else 3)) for _ in range(d)]
    c["spec"] = draw(gen.content_specs(shape, defaults=(0, 0, 2), max_points=8,
                                       # (a tensor that holds no value yet -- only structure -- is transformed as well)
                                       min_points=0 if op in ("swap", "flatten_unflatten", "swizzle") and
                                       draw(st.integers(0, 3)) == 0 else 1, p_noise=0.5,
                                       auth="any"))
    return c


def make_tensor(case):
    spec = case["spec"]
    how = case["how"]
    if how == "random":
        st_ = random.getstate()
        try:
            dens = [1.0] * (len(spec["shape"]) - 1) + [0.6]
            t = Tensor.fromRandom(rank_ids=list(spec["rank_ids"]), shape=list(spec["shape"]), density=dens,
                                  interval=5, seed=case["seed"], default=spec["default"])
        finally:
            random.setstate(st_)
        auth = True
    elif how == "populated":
        t = Tensor.makePopulated(list(spec["rank_ids"]), list(spec["shape"]), initial=3, default=spec["default"])
        auth = True
    else:
        t = build.build_tensor(spec, how)
        auth = spec.get("auth", True)
    for r, f in zip(spec["rank_ids"], case["fmts"]):
        t.setFormat(r, f)
    t.setMutable(case["mutable"])
    return t, auth


def inside(c, s):
    """coordinate c inside shape s (component-wise for tuples)"""
    if isinstance(s, tuple):
        return isinstance(c, tuple) and len(c) == len(s) and all(inside(x, y) for x, y in zip(c, s))
    if isinstance(c, tuple):
        return False
    return 0 <= c < s


def coords_in_shape(t, where, halo_free=True):
    shape = t.getShape()
    for lvl, r in enumerate(t.ranks):
        for f in r.getFibers():
            for c in f.coords:
                if not inside(c, shape[lvl]):
                    raise Violation("coord-outside-shape", f"{where}: rank {r.getId()} stores coordinate {c} but "
                                    f"reports shape {shape[lvl]} (tensor shape {shape})")
            if halo_free:
                a = [c for c, _ in f.iterActive(tick=False)]
                o = [c for c, _ in f.iterOccupancy(tick=False)]
                if a != o:
                    raise Violation("active-range", f"{where}: fiber of rank {r.getId()} with active range "
                                    f"{f.getActive()} iterates {a} but stores non-empty {o}")


def expect(t, where, ids=None, shape="skip", default=None, fmts=None, mutable=None):
    if ids is not None and t.getRankIds() != ids:
        raise Violation("rank-ids", f"{where}: rank ids {t.getRankIds()}, expected {ids}")
    if shape != "skip":
        got = t.getShape(authoritative=True)
        if got != shape:
            raise Violation("shape", f"{where}: authoritative shape {got}, expected {shape}")
    if default is not None and Payload.get(t.getDefault()) != default:
        raise Violation("default", f"{where}: leaf default {t.getDefault()!r}, expected {default}")
    if fmts is not None:
        # None = not specified by the property (the format of a rank that merging / unflattening creates)
        got = [t.getFormat(r) for r in t.getRankIds()]
        if len(got) != len(fmts) or any(w is not None and g != w for g, w in zip(got, fmts)):
            raise Violation("formats", f"{where}: rank formats {got}, expected {fmts}")
    if mutable is not None and t.isMutable() != mutable:
        raise Violation("mutable", f"{where}: mutability hint {t.isMutable()}, expected {mutable}")


def check(case, rec):
    spec = case["spec"]
    d, default = model.depth(spec), spec["default"]
    ids, shape = list(spec["rank_ids"]), list(spec["shape"])
    op, sel = case["op"], case["sel"]
    deep = op == "flatten_deep"          # all four ranks into one, in one call
    if deep:
        op = ["flatten", "flatten_unflatten", "merge"][sel[3] % 3]
        case = dict(case, levels=3)
    narrowed = op == "merge_narrowed"    # colliding sub-fibers with active ranges of their own
    if narrowed:
        op = "merge"
        case = dict(case, levels=1, mstyle="absolute", fmts=["C"] * 3)
        sel = [0, sel[1], sel[2], 1]
    t, auth = make_tensor(case)
    fmts, mut = list(case["fmts"]), case["mutable"]
    ashape = list(shape) if auth else None
    depth = sel[0] % d
    S = shape[depth]
    # the constructor itself
    expect(t, f"constructor ({case['how']})", ids=ids, shape=ashape if auth else "skip", default=default)
    coords_in_shape(t, f"constructor ({case['how']})")
    where = op
    if op == "construct":
        r = None
    elif op in ("splitUniform", "splitEqual", "splitNonUniform", "splitUnEqual", "truediv", "floordiv"):
        if op in ("truediv", "floordiv"):
            depth, S = 0, shape[0]
        if op == "splitUniform":
            r = t.splitUniform(1 + sel[1] % (S + 1), depth=depth, relativeCoords=False)
        elif op == "splitEqual":
            r = t.splitEqual(1 + sel[1] % 3, depth=depth)
        elif op == "splitNonUniform":
            r = t.splitNonUniform(sorted({0, sel[1] % (S + 1), sel[2] % (S + 1)}), depth=depth)
        elif op == "splitUnEqual":
            r = t.splitUnEqual([1 + sel[1] % 2, 1 + sel[2] % 2], depth=depth)
        elif op == "truediv":
            r = t / (1 + sel[1] % 3)
        else:
            r = t // (1 + sel[1] % 3)
        nid = ids[:depth] + [ids[depth] + ".1", ids[depth] + ".0"] + ids[depth + 1:]
        expect(r, where, ids=nid,
               shape=(ashape[:depth] + [S, S] + ashape[depth + 1:]) if auth else "skip",
               default=default, fmts=fmts[:depth] + [fmts[depth]] * 2 + fmts[depth + 1:], mutable=mut)
    elif op == "swizzle":
        perm = [p for p in case["perm"] if p < d]
        r = t.swizzleRanks([ids[p] for p in perm])
        expect(r, where, ids=[ids[p] for p in perm], shape=[shape[p] for p in perm] if auth else "skip",
               default=default, fmts=[fmts[p] for p in perm], mutable=mut)
    elif op == "swap":
        if d < 2:
            return
        dd = sel[0] % (d - 1)
        r = t.swapRanks(depth=dd)
        nid = ids[:dd] + [ids[dd + 1], ids[dd]] + ids[dd + 2:]
        ns = shape[:dd] + [shape[dd + 1], shape[dd]] + shape[dd + 2:]
        nf = fmts[:dd] + [fmts[dd + 1], fmts[dd]] + fmts[dd + 2:]
        expect(r, where, ids=nid, shape=ns if auth else "skip", default=default, fmts=nf, mutable=mut)
    elif op in ("flatten", "flatten_unflatten", "merge"):
        if d < 2:
            return
        dd = sel[0] % (d - 1)
        if case["levels"] >= d - 1:
            dd = 0                      # all ranks below the top one: only possible from the top
        levels = min(case["levels"], d - 1 - dd)
        style = case["style"] if op != "merge" else case["mstyle"]
        if style == "relative":
            # relative coordinates are offsets inside a partition: the style is defined for the two ranks a
            # relative-coordinate split produces (pinned by test_flattenRanks_corr_shape), whose merge
            # re-creates the original rank
            dd = sel[0] % d
            for i in range(d):
                t.setFormat(ids[i], "C")
            step = 1 + sel[1] % (shape[dd] + 1)
            s_ = t.splitUniform(step, depth=dd, relativeCoords=True)
            r = s_.mergeRanks(depth=dd, levels=1, coord_style="relative")
            where = f"merge(relative) of splitUniform({step}, depth={dd}, relativeCoords=True)"
            expect(r, where, ids=ids[:dd] + [[ids[dd] + ".1", ids[dd] + ".0"]] + ids[dd + 1:],
                   shape=ashape if auth else "skip", default=default, mutable=mut)
            if observe.tensor_content(r) != observe.tensor_content(t):
                raise Violation("relative-merge", f"{where} does not restore the content")
            coords_in_shape(r, where)
            rec.cls("merge-relative")
            rec.nontrivial(len(model.content(spec)) >= 2)
            return
        if style == "linear" and (not auth or op == "flatten_unflatten"):
            style = "tuple"
        merged_ids = ids[dd:dd + levels + 1]
        ss = shape[dd:dd + levels + 1]
        if style == "tuple":
            ms = tuple(ss)
        elif style == "pair":
            ms = ss[-1]
            for x in reversed(ss[:-1]):
                ms = (x, ms)
        elif style == "linear":
            ms = 1
            for x in ss:
                ms *= x
        elif style == "absolute":
            ms = ss[-1]
        else:                                   # relative: coordinates are sums
            ms = sum(ss) - len(ss) + 1
        nid = ids[:dd] + [merged_ids] + ids[dd + levels + 1:]
        ns = shape[:dd] + [ms] + shape[dd + levels + 1:]
        nf = fmts[:dd] + [None] + fmts[dd + levels + 1:]
        if sel[3] % 2 and all(f == "C" for f in fmts):
            # fibers below the merged rank with narrowed active ranges of their own (as a populate from an interval
            # projection leaves them): different starts and ends, every stored coordinate inside
            for lvl_, rk in enumerate(t.ranks):
                if lvl_ > dd:
                    for i_, f_ in enumerate(rk.getFibers()):
                        if f_.coords and i_ % 2 == sel[2] % 2:
                            f_.setActive((f_.coords[0], f_.coords[-1] + 1))
            coords_in_shape(t, "operand with narrowed active ranges")
            rec.cls("narrowed-active-ranges-below-merge")
        if op == "merge":
            r = t.mergeRanks(depth=dd, levels=levels, coord_style=style)
        else:
            r = t.flattenRanks(depth=dd, levels=levels, coord_style=style)
        where = f"{op}(depth={dd}, levels={levels}, {style})"
        rec.cls(f"levels{levels}-{style}")
        rec.cls("three-levels-pair-unequal-shapes", levels == 3 and style == "pair" and auth and shape[0] != shape[1])
        expect(r, where, ids=nid, shape=ns if auth else "skip", default=default, fmts=nf, mutable=mut)
        if op == "flatten_unflatten":
            coords_in_shape(r, where)
            r = r.unflattenRanks(depth=dd, levels=levels)
            where = f"unflatten of {where}"
            nf2 = fmts[:dd] + [None] * (levels + 1) + fmts[dd + levels + 1:]
            expect(r, where, ids=ids, shape=ashape if auth else "skip", default=default, fmts=nf2, mutable=mut)
    elif op == "split_swizzle":
        # the tiling workflow: split a rank, then move the new ranks around.  The lower rank of a split has
        # fibers with different, non-nested active ranges; a fiber of the swizzled tensor may span several
        if d > 3:
            return
        for i in range(d):
            t.setFormat(ids[i], "C")
        fmts = ["C"] * d
        step = 1 + sel[1] % (S + 1)
        s_ = t.splitUniform(step, depth=depth, relativeCoords=False) if sel[2] % 2 == 0 else \
            t.splitEqual(1 + sel[1] % 3, depth=depth)
        sid = ids[:depth] + [ids[depth] + ".1", ids[depth] + ".0"] + ids[depth + 1:]
        sshape = (ashape[:depth] + [S, S] + ashape[depth + 1:]) if auth else None
        perm = [p for p in case["perm5"] if p < d + 1]
        r = s_.swizzleRanks([sid[p] for p in perm])
        where = f"swizzleRanks({[sid[p] for p in perm]}) of a split at depth {depth}"
        expect(r, where, ids=[sid[p] for p in perm], shape=[sshape[p] for p in perm] if auth else "skip",
               default=default, fmts=["C"] * (d + 1), mutable=mut)
        rec.cls("split-swizzle-moved-lower-rank-up", perm.index(depth + 1) < perm.index(depth))
    elif op == "flatten_elsewhere":
        # a tensor that already has a flattened rank (list id, format set on it) is flattened at other ranks:
        # the untouched rank keeps its id, shape and format
        t.setFormat(ids[2], "C")
        t.setFormat(ids[3], "C")
        f1 = t.flattenRanks(depth=0, levels=1, coord_style="tuple")
        top = f1.getRankIds()[0]
        fm = "U" if sel[1] % 2 else "C"
        f1.setFormat(top, fm)
        r = f1.flattenRanks(depth=1, levels=1, coord_style="pair" if sel[2] % 2 else "tuple")
        where = "flatten(depth=1) of a tensor whose rank 0 is already flattened"
        expect(r, where, ids=[ids[0:2], ids[2:4]],
               shape=[tuple(shape[0:2]), tuple(shape[2:4])] if auth else "skip", default=default,
               fmts=[fm, None], mutable=mut)
        if f1.getFormat(top) != fm:
            raise Violation("operand-attrs", f"{where}: the operand's format of {top} changed to {f1.getFormat(top)}")
    elif op == "estimate_by_fibers":
        # no declared shape: a rank learns its shape fiber by fiber.  Sibling fibers of different extents, an empty
        # one among them, in every order
        if d < 2:
            return
        kinds = [(sel[0] + i * (1 + sel[1] % 3)) % 3 for i in range(min(shape[0] + 1, 4))]     # 0 long, 1 empty, 2 short

        def sub(kind, lvl):
            if kind == 1:
                return []
            top = shape[lvl] - 1 if kind == 0 else 0
            if lvl == d - 1:
                return [[c, 1 + c] for c in sorted({0, top})] if kind == 0 else [[0, 3]]
            return [[c, sub(kind, lvl + 1)] for c in sorted({0, top})]
        tree = [[i, sub(k_, 1)] for i, k_ in enumerate(kinds)]
        spec2 = {"rank_ids": ids, "shape": [len(kinds)] + shape[1:], "default": default, "tree": tree, "auth": False}
        if sel[2] % 3 == 2:
            # hand-built fibers that each carry a shape of their own (their own extent), as the roots of
            # tensors of different widths stacked under a new rank do
            def hand(tr, lvl):
                cs = [c for c, _ in tr]
                ps = [ch if lvl == d - 1 else hand(ch, lvl + 1) for _, ch in tr]
                return Fiber(cs, ps, shape=(max(cs) + 1) if cs else None)
            r = Tensor.fromFiber(list(ids), hand(tree, 0), default=default)
            rec.cls("sibling-fibers-with-shapes-of-their-own")
        else:
            r = build.build_tensor(spec2, "fiber" if sel[2] % 3 else "ref")
        where = f"tensor without declared shape built from sibling fibers of kinds {kinds} (0 long, 1 empty, 2 short)"
        expect(r, where, ids=ids, default=default)
        rec.cls("empty-fiber-before-shorter-sibling", any(a == 1 and 2 in kinds[i + 1:] and 0 in kinds[:i]
                                                          for i, a in enumerate(kinds)))
    elif op == "fill_in_steps":
        # a tensor without declared shape filled in place, looked at while partly filled and again later
        pts = sorted(model.content(spec).items())
        half = len(pts) // 2
        if sel[1] % 2 and half > 0:
            # the first half arrives as a fiber handed to fromFiber (no shape given: the ranks remember an
            # estimate made now), the rest is inserted later and may lie beyond that estimate
            first = model.tree_from_content(dict(pts[:half]), d)
            t2 = Tensor.fromFiber(list(ids), build.nested_fiber(first, d, None, default), default=default)
            t2.setMutable(True)
            coords_in_shape(t2, "tensor built by fromFiber without a shape")
            pts = pts[half:]
            half = len(pts) // 2
            rec.cls("grown-beyond-constructor-estimate")
        else:
            t2 = Tensor(rank_ids=list(ids), default=default)
        for stage, chunk in (("half-filled", pts[:half]), ("filled", pts[half:])):
            for p_, v_ in chunk:
                t2.getPayloadRef(*p_).__ilshift__(v_)
            t2.getShape()
            for rk in t2.ranks:
                rk.getShape(all_ranks=False)
            coords_in_shape(t2, f"tensor without declared shape, {stage}")
        # a transform of the filled tensor sees all of it: its result reports shapes that hold every coordinate
        if pts:
            s2 = t2.splitUniform(2, depth=d - 1)
            coords_in_shape(s2, "split of a tensor without declared shape that was filled in steps")
            if s2.countValues() != t2.countValues():
                raise Violation("values-lost", f"the split of a tensor filled in steps holds {s2.countValues()} of "
                                f"{t2.countValues()} values")
            if d >= 2:
                w2 = t2.swizzleRanks(list(reversed(ids)))
                coords_in_shape(w2, "swizzle of a tensor without declared shape that was filled in steps")
        r = t2
        where = "fill_in_steps"
    elif op == "from_ragged":
        # a nest whose sub-lists differ in length between (not within) the elements of an upper rank: not
        # rectangular, so the constructor may reject it; if it produces a tensor, that tensor is "produced
        # by a constructor" and its coordinates lie inside the shape it reports
        if d < 3:
            return
        def nest(level, widen):
            n = shape[level] + (widen if level == d - 1 else 0)
            if level == d - 1:
                return [1 + (i + widen) % 3 if (i + sel[1]) % 2 else default for i in range(n)]
            return [nest(level + 1, widen) for _ in range(n)]
        top = [nest(1, (i * (1 + sel[2] % 2)) % 3) for i in range(shape[0])]
        try:
            r = Tensor.fromUncompressed(list(ids), top, default=default)
        except (ValueError, TypeError, AssertionError):
            rec.cls("ragged-rejected")
            return
        where = "fromUncompressed(ragged nest)"
        expect(r, where, ids=ids, default=default)
    elif op == "flatten_twice":
        # flatten, then flatten the result again at the rank that is already a list of ids
        if d < 3:
            return
        dd = sel[0] % (d - 2)
        f1 = t.flattenRanks(depth=dd, levels=1, coord_style="tuple")
        ids1 = copy.deepcopy(f1.getRankIds())
        shape1 = copy.deepcopy(f1.getShape(authoritative=True))
        r = f1.flattenRanks(depth=dd, levels=1, coord_style="tuple")
        where = f"flatten(depth={dd}) twice"
        if f1.getRankIds() != ids1 or f1.getShape(authoritative=True) != shape1:
            raise Violation("operand-attrs", f"{where}: the second flatten changed its operand's rank ids / shape: "
                            f"{ids1} -> {f1.getRankIds()}")
        nid = ids[:dd] + [ids[dd:dd + 3]] + ids[dd + 3:]
        ns = shape[:dd] + [tuple(shape[dd:dd + 3])] + shape[dd + 3:]
        nf = fmts[:dd] + [None] + fmts[dd + 3:]
        expect(r, where, ids=nid, shape=ns if auth else "skip", default=default, fmts=nf, mutable=mut)
        back = f1.unflattenRanks(depth=dd, levels=1)
        expect(back, f"unflatten of the first result after {where}", ids=ids)
    elif op == "updateCoords":
        # (a rank without a declared shape needs new_shape: the docstring's precondition)
        kw = {} if auth else {"new_shape": S}
        nid, nshape = list(ids), (list(ashape) if auth else None)
        fn = lambda i, c, p: S - 1 - c
        if sel[1] % 3 == 0 and depth == 0 and len(t.getRoot().coords) > 0:
            # documented parameters: a new id for the updated rank, and a new shape where the map needs one
            # (an empty root is "nothing to do" for Fiber.updateCoords, its attributes included: not asked for)
            kw["new_rank_id"] = "Q"
            nid[0] = "Q"
            if sel[2] % 2:
                fn = lambda i, c, p: 2 * c
                kw["new_shape"] = 2 * S
                if auth:
                    nshape[0] = 2 * S
            rec.cls("updateCoords-new-rank-id")
        r = t.updateCoords(fn, depth=depth, **kw)
        if t.getRankIds() != ids:
            raise Violation("operand-attrs", f"updateCoords changed its operand's rank ids to {t.getRankIds()}")
        expect(r, where, ids=nid, shape=nshape if auth else "skip", default=default, fmts=fmts, mutable=mut)
    elif op == "updatePayloads":
        r = t.updatePayloads(lambda i, c, p: p + 1, depth=d - 1)
        expect(r, where, ids=ids, shape=ashape if auth else "skip", default=default, fmts=fmts, mutable=mut)
    elif op == "deepcopy":
        r = copy.deepcopy(t)
        expect(r, where, ids=ids, shape=ashape if auth else "skip", default=default, fmts=fmts, mutable=mut)
    elif op == "yaml":
        path = os.path.join(build.tmpdir(), f"c14-{os.getpid()}.yaml")
        t.dump(path)
        try:
            r = Tensor.fromYAMLfile(path)
        finally:
            os.remove(path)
        # a YAML file carries rank ids, shape and name (no default, formats or mutability)
        expect(r, where, ids=ids, shape=t.getShape())
    if op != "construct":
        coords_in_shape(r, where)
        observe.rank_consistency(r, where)
    rec.cls(op)
    rec.cls("flatten_deep", deep)
    rec.cls("merge_narrowed", narrowed)
    rec.cls("estimated-shape", not auth)
    rec.cls("nonzero-default", default != 0)
    rec.cls("has-U", "U" in fmts)
    noncubic = auth and len(set(shape)) > 1
    rec.nontrivial((default != 0 or "U" in case["fmts"] or noncubic) and len(model.content(spec)) >= 2)


# ---------------------------------------------------------------- lazy fibers and adoption
LAZY = ["and", "or", "xor", "sub", "lshift", "intersection", "union", "leader-follower", "project", "project-interval",
        "prune", "coiterShape", "coiterActiveShape", "coiterRangeShape", "adopt", "lazy-first", "lazy-first"]


@st.composite
def lazy_cases(draw):
    op = draw(st.sampled_from(LAZY))
    S = draw(st.integers(1, 8))
    def fib():
        cs = sorted(draw(st.sets(st.integers(0, S - 1), max_size=5)))
        a0 = draw(st.integers(0, S - 1))
        return {"coords": cs, "vals": [draw(st.sampled_from([1, 2, 0, 5])) for _ in cs],
                "active": draw(st.one_of(st.none(), st.just([a0, draw(st.integers(a0 + 1, S))]))),
                "owned": draw(st.booleans()), "id": draw(st.sampled_from(["K", "M", "Q"]))}
    return {"op": op, "S": S, "a": fib(), "b": fib(), "m": draw(st.sampled_from([1, -1, 2])),
            "k": draw(st.integers(0, 4)), "lo": draw(st.integers(0, 6)), "len": draw(st.integers(1, 6)),
            "step": draw(st.integers(1, 2)), "default": draw(st.sampled_from([0, 0, 3])),
            "shape2": draw(st.integers(1, 9))}


def mkfiber(dsc, S, default=0):
    f = build.leaf_fiber(dsc["coords"], dsc["vals"], shape=S, default=default, rank_id=dsc["id"],
                         owned=dsc["owned"], active=dsc["active"])
    return f


def check_lazy(case, rec):
    S, op = case["S"], case["op"]
    a = mkfiber(case["a"], S)
    b = mkfiber(case["b"], S)
    ida, idb = case["a"]["id"], case["b"]["id"]
    acta = tuple(case["a"]["active"]) if case["a"]["active"] else (0, S)
    actb = tuple(case["b"]["active"]) if case["b"]["active"] else (0, S)

    def want(lazy, rid, active, what):
        if not lazy.isLazy():
            raise Violation("lazy", f"{what}: result is not a lazy fiber")
        got = lazy.getRankAttrs().getId()
        if rid is not None and got != rid:
            raise Violation("lazy-rank-id", f"{what}: rank id {got!r}, expected {rid!r}")
        if lazy.getActive() != active:
            raise Violation("lazy-active", f"{what}: active range {lazy.getActive()}, expected {active}")

    if op == "and":
        want(a & b, ida, acta, "a & b")
    elif op == "or":
        want(a | b, ida, acta, "a | b")
    elif op == "xor":
        want(a ^ b, ida, acta, "a ^ b")
    elif op == "sub":
        want(a - b, ida, acta, "a - b")
    elif op == "lshift":
        want(a << b, ida, actb, "z << a (z = first operand)")
    elif op == "intersection":
        want(Fiber.intersection(a, b, a), ida, acta, "intersection(a, b, a)")
    elif op == "leader-follower":
        want(Fiber.intersection(a, b, style="leader-follower"), ida, acta, "leader-follower intersection")
    elif op == "union":
        want(Fiber.union(a, b, b), ida, acta, "union(a, b, b)")
    elif op == "prune":
        want(a.prune(trans_fn=lambda i, c, p: c % 2 == 0), ida, acta, "prune")
    elif op in ("project", "project-interval"):
        m, k = case["m"], case["k"]
        tr = lambda c: m * c + k
        if op == "project":
            lo_, hi_ = tr(acta[0]), tr(acta[1] - 1)
            exp = (min(lo_, hi_), max(lo_, hi_) + 1)
            want(a.project(trans_fn=tr, rank_id="P"), "P", exp, f"project(m={m}, k={k})")
        else:
            iv = (case["lo"], case["lo"] + case["len"])
            want(a.project(trans_fn=tr, interval=iv, rank_id="P"), "P", iv, f"project(interval={iv})")
    elif op == "coiterShape":
        want(Fiber.coiterShape([a, b]), ida, (0, S), "coiterShape")
        want(Fiber.coiterShapeRef([a, b]), ida, (0, S), "coiterShapeRef")
    elif op == "coiterActiveShape":
        want(Fiber.coiterActiveShape([a, b]), ida, acta, "coiterActiveShape")
        want(Fiber.coiterActiveShapeRef([a, b]), ida, acta, "coiterActiveShapeRef")
    elif op == "coiterRangeShape":
        rng = (case["lo"], case["lo"] + case["len"])
        want(Fiber.coiterRangeShape([a, b], rng[0], rng[1], case["step"]), ida, rng, "coiterRangeShape")
        want(Fiber.coiterRangeShapeRef([a, b], rng[0], rng[1], case["step"]), ida, rng, "coiterRangeShapeRef")
    elif op == "lazy-first":
        # the first operand is itself a lazily produced fiber: its rank id and active range are the ones the
        # rules above gave it, and the outer operation hands them on
        c = mkfiber(case["b"], S)
        k = case["k"]
        inner = [("a & b", lambda: a & b, ida, acta), ("a | b", lambda: a | b, ida, acta),
                 ("a - b", lambda: a - b, ida, acta),
                 ("a.project(c+k)", lambda: a.project(trans_fn=lambda x: x + k, rank_id="P"), "P",
                  (acta[0] + k, acta[1] + k)),
                 ("a.prune", lambda: a.prune(trans_fn=lambda i, x, p: True), ida, acta)][case["lo"] % 5]
        name, mk, rid, act = inner
        outer = case["len"] % 4
        if outer == 0:
            want(mk() & c, rid, act, f"({name}) & c")
        elif outer == 1:
            want(mk() | c, rid, act, f"({name}) | c")
        elif outer == 2:
            want(mk() - c, rid, act, f"({name}) - c")
        else:
            want(mk().prune(trans_fn=lambda i, x, p: True), rid, act, f"({name}).prune")
    elif op == "adopt":
        # an unowned fiber with attributes of its own joins a tensor
        u = Fiber(case["a"]["coords"], case["a"]["vals"], shape=case["shape2"] + S, default=7)
        u.getRankAttrs().setId("Q")
        t = Tensor.fromFiber(["Z"], u, shape=[S + 20], default=case["default"])
        f = t.getRoot()
        # (what the fiber reports must be the rank's attributes; whether it does so through the very same
        # attribute object is not part of the statement)
        if f.getRankAttrs().getId() != "Z" or f.getRankIds() != ["Z"]:
            raise Violation("adopt", f"adopted fiber reports rank id {f.getRankAttrs().getId()!r}, rank is 'Z'")
        if Payload.get(f.getDefault()) != case["default"]:
            raise Violation("adopt", f"adopted fiber reports default {f.getDefault()!r}, rank has {case['default']}")
        if f.getShape(all_ranks=False) != S + 20 or f.getShape() != [S + 20]:
            raise Violation("adopt", f"adopted fiber reports shape {f.getShape(all_ranks=False)}, rank has {S + 20}")
    rec.cls(op)
    rec.nontrivial(len(case["a"]["coords"]) >= 1 and (case["a"]["active"] is not None or ida != idb))


PARTS = [Part("tensors", cases(), check, n_quick=2500, n_thorough=25000),
         Part("lazy", lazy_cases(), check_lazy, n_quick=1500, n_thorough=15000)]


def _pin_swap_shape():
    t = Tensor(rank_ids=["M", "K"], shape=[2, 3])
    t.getPayloadRef(0, 0).__ilshift__(1)
    got = t.swapRanks().getShape(authoritative=True)
    return None if got == [3, 2] else f"swapRanks of a [2, 3] tensor reports authoritative shape {got}"


def _pin_p17():
    t = Tensor(rank_ids=["M", "K"], shape=[2, 3])
    t.getPayloadRef(0, 2).__ilshift__(1)
    f = t.mergeRanks(coord_style="absolute").getRoot()
    a = [c for c, _ in f.iterActive(tick=False)]
    return None if a == [2] else f"mergeRanks(absolute) of [2,3]: active range {f.getActive()} hides stored coordinate 2"


def _pin_unflatten_shape():
    t = Tensor(rank_ids=["M", "K"])
    t.getPayloadRef(0, 0).__ilshift__(1)
    u = t.flattenRanks().unflattenRanks()
    s = u.getShape()
    return None if all(isinstance(x, int) for x in s) else f"flatten then unflatten (estimated shape) reports shape {s}"


def _pin_unflatten_default():
    t = Tensor(rank_ids=["M", "K"], shape=[2, 2], default=2)
    t.getPayloadRef(0, 0).__ilshift__(1)
    got = Payload.get(t.flattenRanks().unflattenRanks().getDefault())
    return None if got == 2 else f"flatten then unflatten of a default-2 tensor reports default {got}"


def _pin_p18():
    got = Fiber([(0, 2), (1, 0)], [1, 1]).estimateShape()
    got2 = Fiber([0, 1], [Fiber([2], [1]), Fiber([5], [1])]).estimateShape()
    if got != [(2, 3)] or got2 != [2, 6]:
        return f"estimateShape: tuple coordinates (0,2),(1,0) -> {got}; sub-fibers with max 2 and 5 -> {got2}"
    return None


def _pin_swizzle_attrs():
    t = Tensor(rank_ids=["M", "K"], shape=[2, 2])
    t.getPayloadRef(0, 0).__ilshift__(1)
    t.setFormat("M", "U")
    t.setMutable(True)
    s = t.swizzleRanks(["K", "M"])
    if s.getFormat("M") != "U" or not s.isMutable():
        return f"swizzleRanks: format of M {s.getFormat('M')} (was U), mutable {s.isMutable()} (was True)"
    return None


def _pin_tuple_active():
    t = Tensor(rank_ids=["M", "K", "N"], shape=[1, 1, 1])
    t.getPayloadRef(0, 0, 0).__ilshift__(1)
    f = t.flattenRanks(depth=0, levels=2, coord_style="tuple").getRoot()
    try:
        a = [c for c, _ in f.iterActive(tick=False)]
    except TypeError as e:
        return f"iterActive of a 2-level tuple-flattened rank raises TypeError (active range {f.getActive()})"
    return None if a == [(0, 0, 0)] else f"iterActive yields {a}"


def _pin_p40():
    t = Tensor.fromFiber(["M", "K"], Fiber([0], [Fiber([0], [1])]))          # no shape given
    t.setMutable(True)
    t.getPayloadRef(1, 0).__ilshift__(1)                                      # beyond the estimate made at construction
    if t.getShape()[0] < 2 or not (t.getRoot().getActive()[0] <= 1 < t.getRoot().getActive()[1]):
        return (f"fromFiber without a shape, then an insertion at M=1: shape {t.getShape()}, root active range "
                f"{t.getRoot().getActive()} do not cover the stored coordinate 1")
    try:
        t.swizzleRanks(["K", "M"])
    except ValueError as e:
        return f"swizzleRanks of that tensor raises ValueError: {e}"
    return None


def _pin_p40b():
    t = Tensor.fromFiber(["M", "K"], Fiber([0], [Fiber([0], [1])]))          # no shape given
    t.setMutable(True)
    t.getPayloadRef(0, 1).__ilshift__(1)
    s = t.splitUniform(2, depth=1)
    if s.getShape()[2] < 2:
        return f"split of a fromFiber tensor grown since construction reports shape {s.getShape()} but stores K.0 coordinate 1"
    return None


PINNED = {"P40-estimate-made-at-construction-goes-stale": _pin_p40,
          "P40b-split-of-grown-estimated-tensor": _pin_p40b,
          "P6a-swap-shape-estimated": _pin_swap_shape,
          "P17-merge-absolute-active-range": _pin_p17,
          "P18b-unflatten-top-rank-tuple-shape": _pin_unflatten_shape,
          "P6c-unflatten-drops-default": _pin_unflatten_default,
          "P18-estimate-shape-misses-coordinates": _pin_p18,
          "P6b-swizzle-drops-formats-mutability": _pin_swizzle_attrs,
          "P23-tuple-flatten-nested-active-range": _pin_tuple_active}


def _pin_p25():
    t = Tensor(rank_ids=["M", "K", "N"], shape=[2, 1, 1])
    t.getPayloadRef(0)
    t.getPayloadRef(1, 0, 0)        # explicit default only
    s = t.swapRanks(depth=0)
    try:
        coords_in_shape(s, "swapRanks of an all-empty tensor")
    except Violation as v:
        return v.msg
    return None


PINNED["P25-swap-empty-tensor-unswapped-root"] = _pin_p25
