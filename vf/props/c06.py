"""C06 -- kernel results do not depend on the dataflow used to compute them."""

import itertools

from hypothesis import strategies as st

from .. import kernels as K
from .. import model, observe
from ..core import Part, Violation

ID = "C06"
RULE = ("A case is an einsum-like expression Z[out] = sum prod operands (1-3 operands over 1-3 index variables, "
        "shapes 1-4, operands are TreeSpecs with negative / dyadic values, explicit zeros, empty sub-fibers, "
        "possibly empty, any declared rank order, built through a drawn constructor route) plus 2-4 dataflows of "
        "it: loop order (any permutation of the loop ranks), optional uniform tiling of one variable (tile size "
        "1..shape+1, operands splitUniform'ed at that rank, output ranks v.1,v.0 in either nesting), intersection "
        "style (a&b nested, Fiber.intersection two-finger, leader-follower with zero products skipped). Each "
        "dataflow is executed by vf/kernels.py strictly in the library's idiom (swizzleRanks to concordance, "
        "z << (a & b), a & b, z_ref += a*b). Oracle: raw content of Z == dense dictionary evaluation of the "
        "expression over model.content of the operands (zero sums dropped, v.1 = v.0//tile*tile) for every "
        "dataflow, and the variable-space projections of all dataflows agree with the first one. A second part "
        "enumerates ALL loop orders x ALL tile sizes x the styles for 13 named expressions on fixed operands. "
        "Non-trivial: result has >= 2 non-zero points, the nest has >= 2 loop levels and some co-iteration "
        "skipped a coordinate. Distinct = SHA-1 of the generated case.")
ASSUMPTIONS = ["operand and output default is 0 (sum-of-products semantics)",
               "values are ints / dyadic floats of small magnitude, so every summation order is exact",
               "operands are swizzled to be concordant with the loop order and tiled consistently before the nest "
               "(the idiom requires it); the output tensor is created with its shape",
               "leader-follower: the first operand holding the loop rank leads; a zero product is skipped "
               "before the reduction"]

ROUTES = ["ref", "ref", "fiber", "uncompressed", "yaml", "deepcopy"]


@st.composite
def cases(draw):
    spec = draw(K.kernel_specs(shapeless_out=True))
    nvar = draw(st.integers(1, 3))
    flows = [draw(K.dataflows(spec["vars"])) for _ in range(nvar)]
    routes = {str(i): draw(st.sampled_from(ROUTES)) for i in range(len(spec["operands"]))}
    return {"kernel": spec, "flows": flows, "routes": routes}


def describe(spec):
    ops = ", ".join("ABC"[i] + "[" + ",".join(o["rank_ids"]) + "]" for i, o in enumerate(spec["operands"]))
    return (f"Z[{','.join(spec['out'])}] = {ops}; vars={spec['vars']} order={spec['order']} tile={spec['tile']} "
            f"style={spec['style']}; operands=" +
            "; ".join("ABC"[i] + "=" + str(o["tree"]) for i, o in enumerate(spec["operands"])))


def run_one(spec, routes):
    """Run one dataflow; returns (content, counts, prep).  Raises Violation on disagreement with
    the dense evaluation."""
    got, counts, _, prep = K.run_plain(spec, routes=routes)
    want = K.expected_content(spec)
    if prep.out.getRankIds():
        observe.wellformed(prep.out.getRoot(), depth=len(prep.out.getRankIds()), where="output Z")
    if got != want:
        extra = {p: v for p, v in got.items() if p not in want}
        missing = {p: v for p, v in want.items() if p not in got}
        wrong = {p: (got[p], want[p]) for p in got if p in want and got[p] != want[p]}
        raise Violation("kernel-result",
                        f"content(Z) differs from the dense evaluation: extra={extra} missing={missing} "
                        f"wrong(got,want)={wrong} -- {describe(spec)}",
                        data={"got": sorted(map(list, got.items()), key=repr),
                              "want": sorted(map(list, want.items()), key=repr)})
    return got, counts, prep


def check(case, rec):
    base = case["kernel"]
    routes = case.get("routes")
    specs = [base] + [K.variant(base, order=f["order"], tile=f["tile"], style=f["style"]) for f in case["flows"]]
    first = None
    nt = False
    terms = K.dense_terms(base)
    cancelled = any(sum(ts) == 0 for ts in terms.values())
    for spec in specs:
        got, counts, prep = run_one(spec, routes)
        proj = K.project_to_vars(spec, got)
        if first is None:
            first = (spec, proj)
        elif proj != first[1]:
            raise Violation("dataflow-dependence",
                            f"two dataflows of one expression disagree: {first[1]} ({describe(first[0])}) vs "
                            f"{proj} ({describe(spec)})")
        classify(spec, counts, got, rec)
        if len(got) >= 2 and len(spec["order"]) >= 2 and counts.skipped_coords >= 1:
            nt = True
    rec.cls("cancelling-sum", cancelled)
    rec.cls("empty-result", not first[1])
    d = [model.depth(o) for o in base["operands"]]
    rec.cls("explicit-zero", any(model.has_explicit_default(o["tree"], dd, 0) for o, dd in zip(base["operands"], d)))
    rec.cls("empty-subfiber", any(model.has_empty_subfiber(o["tree"], dd) for o, dd in zip(base["operands"], d)))
    rec.cls("empty-operand", any(not model.content(o) for o in base["operands"]))
    rec.cls(f"operands{len(base['operands'])}")
    rec.cls(f"vars{len(base['vars'])}")
    rec.cls("rank0-output", not base["out"])
    rec.cls("distinct-dataflows", len({(tuple(s["order"]), str(s["tile"]), s["style"]) for s in specs}) >= 2)
    rec.nontrivial(nt)


def classify(spec, counts, got, rec):
    tile = spec["tile"]
    rec.cls("tiled", bool(tile))
    if tile:
        v = tile["var"]
        rec.cls("tile-inner-first", spec["order"].index(v + ".0") < spec["order"].index(v + ".1"))
        rec.cls("tile-split-apart", abs(spec["order"].index(v + ".0") - spec["order"].index(v + ".1")) > 1)
        rec.cls("tile-below-top", any(v in o["rank_ids"] and o["rank_ids"].index(v) > 0 for o in spec["operands"]))
        rec.cls("tile-partial-last", spec["vars"][v] % tile["size"] != 0)
    rec.cls("style-" + spec["style"])
    rec.cls("swizzled", any(K.operand_ranks(spec, i) != [r for r in _split_ids(o["rank_ids"], tile)]
                            for i, o in enumerate(spec["operands"])))
    rec.cls("skipped-coordinate", counts.skipped_coords >= 1)
    rec.cls("zero-product-skipped", counts.skipped_zero >= 1)
    rec.cls("accumulation", counts.add >= 1)
    rec.cls("two-points", len(got) >= 2)


def _split_ids(ids, tile):
    out = []
    for r in ids:
        out += [r + ".1", r + ".0"] if tile and tile["var"] == r else [r]
    return out


# ---------------------------------------------------------------------------
# exhaustive part: named expressions x every dataflow
# ---------------------------------------------------------------------------

SHAPES = {"M": 3, "K": 4, "N": 2}
EXPRS = [
    ("dot", [["K"], ["K"]], []),
    ("elementwise", [["M"], ["M"]], ["M"]),
    ("copy-transpose", [["K", "M"]], ["M", "K"]),
    ("reduce-rows", [["M", "K"]], ["M"]),
    ("reduce-all", [["M", "K"]], []),
    ("matvec", [["M", "K"], ["K"]], ["M"]),
    ("matvec-transposed", [["K", "M"], ["K"]], ["M"]),
    ("outer", [["M"], ["N"]], ["M", "N"]),
    ("elementwise-2d", [["M", "K"], ["K", "M"]], ["M", "K"]),
    ("matmat", [["M", "K"], ["K", "N"]], ["M", "N"]),
    ("three-dot", [["K"], ["K"], ["K"]], []),
    ("scaled-matvec", [["M", "K"], ["K"], ["M"]], ["M"]),
    ("matmat-scaled", [["M", "K"], ["N", "K"], ["N"]], ["M", "N"]),
]


# value tables of the fixed operand sets (None = coordinate absent, 0 = explicit zero)
_TABLES = {
    0: [2, None, -1, 3, 1, -2, 0, 4, None, -3, 1, 5, -1, None, 2, 0.5, -2, 3, None, 1, -4, 2, 1, -0.5],
    1: [1, -1, 1, 1, -1, None, -1, 1, 1, -1, -1, 1, None, 1, -1, 1, -1, -1, 1, 1, -1, 1, None, -1],
}
_TABLES[2] = _TABLES[0]


def fixed_tree(shape, salt, dset):
    """Deterministic sparse tree with negatives, explicit zeros and (2-D operands of set 0) an
    empty sub-fiber."""
    tab = _TABLES[dset]

    def rec(dims, prefix):
        out = []
        for c in range(dims[0]):
            pt = prefix + (c,)
            if len(dims) == 1:
                idx = 5 * salt + sum(x * w for x, w in zip(pt, (1, 5, 11)[-len(pt):]))
                v = tab[idx % len(tab)]
                if v is not None:
                    out.append([c, v])
            elif dset == 0 and len(prefix) == 0 and c == 1 and salt == 0:
                out.append([c, []])
            else:
                out.append([c, rec(dims[1:], pt)])
        return out
    return rec(list(shape), ())


def all_flows(vs, multi):
    names = sorted(vs, key=K.VAR_NAMES.index)
    styles = K.STYLES if multi else ["nested"]
    tiles = [None] + [{"var": v, "size": s} for v in names for s in range(1, vs[v] + 2)]
    for tile in tiles:
        ranks = []
        for v in names:
            ranks += [v + ".1", v + ".0"] if tile and tile["var"] == v else [v]
        for order in itertools.permutations(ranks):
            for style in styles:
                yield {"tile": tile, "order": list(order), "style": style}


def enum_cases(tier):
    dsets = [0, 1] if tier == "quick" else [0, 1, 2]
    for name, ops, out in EXPRS:
        vs = {v: SHAPES[v] for v in K.VAR_NAMES if any(v in o for o in ops)}
        multi = any(sum(v in o for o in ops) >= 2 for v in vs)
        for dset in dsets:
            operands = []
            for i, ranks in enumerate(ops):
                shape = [vs[r] for r in ranks]
                tree = [] if (dset == 2 and i == len(ops) - 1) else fixed_tree(shape, i, dset)
                operands.append({"rank_ids": list(ranks), "shape": shape, "default": 0, "tree": tree,
                                 # the second operand set has no declared shapes (the ranks estimate them)
                                 "auth": dset != 1})
            for f in all_flows(vs, multi):
                spec = {"vars": vs, "operands": operands, "out": out}
                spec.update(f)
                yield {"name": name, "kernel": spec}


def check_enum(case, rec):
    spec = case["kernel"]
    got, counts, prep = run_one(spec, None)
    classify(spec, counts, got, rec)
    rec.cls("expr-" + case["name"])
    rec.cls("cancelling-sum", any(sum(ts) == 0 for ts in K.dense_terms(spec).values()))
    rec.cls("empty-operand", any(not model.content(o) for o in spec["operands"]))
    rec.nontrivial(len(got) >= 2 and len(spec["order"]) >= 2 and counts.skipped_coords >= 1)


PARTS = [
    Part("dataflows", cases(), check, n_quick=900, n_thorough=12000),
    Part("named-exhaustive", None, check_enum, n_quick=0, n_thorough=0, enumerate=enum_cases,
         exhaustive_note="13 named expressions (dot, elementwise, copy/transpose, reductions, mat-vec, outer, "
                         "mat-mat, 3-operand products) over shapes M=3,K=4,N=2 on fixed sparse operands "
                         "(2 operand sets quick, one of them with +-1 values only so that sums cancel; thorough adds a set with an empty operand): every "
                         "permutation of the loop ranks x every tile (each variable, sizes 1..shape+1, and "
                         "untiled) x the three intersection styles"),
]


def coverage_warnings(rec):
    n = max(1, rec.classes.get("dataflows:operands1", 0) + rec.classes.get("dataflows:operands2", 0)
            + rec.classes.get("dataflows:operands3", 0))
    out = []
    for k, floor in (("dataflows:tiled", 0.3), ("dataflows:cancelling-sum", 0.03), ("dataflows:two-points", 0.15),
                     ("dataflows:skipped-coordinate", 0.3), ("dataflows:style-leader-follower", 0.3),
                     ("dataflows:empty-subfiber", 0.1), ("dataflows:explicit-zero", 0.2)):
        if rec.classes.get(k, 0) / n < floor:
            out.append(f"{k} only {rec.classes.get(k, 0)}/{n}")
    return out
