"""C11 -- arithmetic on boxes and on fibers agrees with arithmetic on the values.

Part ``matrix``  : the finite operator matrix of ``Payload`` / ``CoordPayload``
                   (operators the two class docstrings list) x operand kinds,
                   enumerated completely with a fixed value table and, in
                   addition, sampled with generated int / dyadic-float values.
Part ``fibers``  : ``Fiber`` + and * with a fiber or a scalar, value-returning
                   and in-place forms, against a dict model of the content.
"""

import operator
import re

from hypothesis import strategies as st

from fibertree import CoordPayload, Fiber, Payload

from .. import build, findings, gen, model
from ..core import Part, Violation

ID = "C11"
RULE = ("matrix: every cell (operator, operand kinds) of {+ - * / // << & | == != < > <= >= ; += -= *= /= ; <<=} x "
        "{box.box, box.scalar, scalar.box, elem.elem, elem.scalar, scalar.elem, elem.box} is run with a fixed value "
        "table (enumerated completely) and with generated values (ints in [-1000,1000], dyadic floats k/16, non-zero "
        "divisors, shift counts 0..12, ints only for << & |); elements are built by the CoordPayload constructor or "
        "taken out of a real fiber. Oracle: the Python operator on the plain values (same type, same value); value "
        "forms leave both operands unchanged; in-place forms return the SAME box / element object holding the result; "
        "<<= leaves the right operand's value in the same box. Non-trivial: operands differ and are both non-zero. "
        "fibers: pairs of 1- and 2-level fibers of default 0 and a declared shape (random overlap, disjoint, equal "
        "coordinate sets, empty operands, explicit zeros, empty sub-fibers; left operand unowned or root of a tensor) "
        "and a scalar (int / dyadic float / boxed). Oracle on the content dict: f+g sum over the union, f*g product "
        "over the intersection, f+s over the whole shape, f*s over the stored elements, each both ways round; f+=g, "
        "f*=g, f+=s, f*=s leave the same fiber object with the content of the value form; value forms leave the "
        "operands unchanged. Non-trivial: the two fibers overlap partially (common and private points on both sides). "
        "Distinct = SHA-1 of the generated case.")
ASSUMPTIONS = [
    "operand values are ints and dyadic floats (exact); divisors are non-zero; shift counts are small and >= 0; "
    "<< & | get ints only",
    "operand kind box.elem (Payload on the left of a CoordPayload) is not part of the matrix; `scalar <<= box` is not "
    "an assignment and is left out",
    "fibers have default 0 ('empty elements are treated as zero') and a declared shape equal for both operands; "
    "scalar forms are exercised on leaf-level fibers only (the code reads p.value)",
    "2-level fibers are unowned (rank bookkeeping of owned trees is C02's subject)",
]

F_ELEM_ILSHIFT = "P5-elem-ilshift"
F_ELEM_DIV = "P5-elem-truediv"
F_ELEM_MISSING = "P5-elem-floordiv-bitops"
F_BOX_RDIV = "P5-box-rtruediv"
F_BOX_IDIV = "P5-box-itruediv"
F_BOX_FLOORDIV = "P5-box-floordiv"
F_BOX_RBITOPS = "P5-box-rbitops"
F_FIBER_IMUL = "P4-fiber-imul-outside"

# --------------------------------------------------------------------------
# the operator matrix
# --------------------------------------------------------------------------

ARITH = ["+", "-", "*", "/", "//"]
BITS = ["<<", "&", "|"]
CMP = ["==", "!=", "<", ">", "<=", ">="]
INPLACE = ["+=", "-=", "*=", "/="]
ASSIGN = "<<="

KINDS = ["box.box", "box.scalar", "scalar.box", "elem.elem", "elem.scalar", "scalar.elem", "elem.box"]
ASSIGN_KINDS = [k for k in KINDS if not k.startswith("scalar")]

PYOP = {"+": operator.add, "-": operator.sub, "*": operator.mul, "/": operator.truediv,
        "//": operator.floordiv, "<<": operator.lshift, "&": operator.and_, "|": operator.or_,
        "==": operator.eq, "!=": operator.ne, "<": operator.lt, ">": operator.gt,
        "<=": operator.le, ">=": operator.ge}
APPLY = dict(PYOP)
APPLY.update({"+=": operator.iadd, "-=": operator.isub, "*=": operator.imul, "/=": operator.itruediv,
              "<<=": operator.ilshift})


def cells():
    out = []
    for op in ARITH + BITS + CMP + INPLACE:
        for k in KINDS:
            out.append((op, k))
    for k in ASSIGN_KINDS:
        out.append((ASSIGN, k))
    return out


CELLS = cells()

# (the last pairs need more than 53 bits: int / int is correctly rounded, float(int) / int is not)
TABLE_GEN = [(12, 5), (-7, 3), (6, 6), (3, -4), (0, 9), (2.5, 0.5), (-1.25, 4), (7, 0.25), (1.5, 1.5), (8, -0.5),
             (2 ** 62 + 6, 2 ** 9 + 1), (10 ** 22 + 3, 7), (-(2 ** 53) - 1, 3)]
WIDE = [2 ** 53 + 1, 2 ** 62 + 6, 10 ** 22 + 3, -(2 ** 53) - 1, 2 ** 9 + 1, 3 ** 40, 2 ** 64 - 1]
TABLE_BIT = [(12, 2), (-7, 3), (6, 6), (0, 4), (5, 0), (9, 1), (1, 8), (-3, 7)]


# pairs for the comparison operators only (nothing is computed, so the oracle -- Python's operator on the same two
# values -- is exact whatever the values): neighbouring floats, values that differ far below any tolerance, infinities,
# the two zeros
TABLE_CMP = [(0.1 + 0.2, 0.3), (0.3, 0.30000000000000004), (1e16, 1e16 + 2), (2 ** 53, 2 ** 53 + 1), (2.0 ** 53, 2 ** 53 + 1),
             (float("inf"), 1e308), (-float("inf"), 0), (-0.0, 0.0), (1.0, 1.0000000000000002),
             (float("nan"), 1.0), (2, float("nan")), (float("nan"), float("nan"))]


def enumerate_matrix(tier):
    for op, kind in CELLS:
        table = TABLE_BIT if op in BITS else TABLE_GEN + (TABLE_CMP if op in CMP else [])
        for i, (a, b) in enumerate(table):
            yield {"op": op, "kind": kind, "a": a, "b": b, "src": "fiber" if i % 2 else "ctor"}


_ints = st.one_of(st.integers(-1000, 1000), st.integers(-1000, 1000), st.integers(-1000, 1000), st.sampled_from(WIDE))
_nz_ints = st.one_of(st.integers(1, 1000), st.integers(-1000, -1), st.integers(1, 1000), st.sampled_from(WIDE))
_floats = st.integers(-4000, 4000).map(lambda k: k / 16)
_nz_floats = st.one_of(st.integers(1, 4000), st.integers(-4000, -1)).map(lambda k: k / 16)
_num = st.one_of(_ints, _ints, _floats)
_nz_num = st.one_of(_nz_ints, _nz_ints, _nz_floats)


@st.composite
def matrix_cases(draw):
    op, kind = draw(st.sampled_from(CELLS))
    if op == "<<":
        a, b = draw(_ints), draw(st.integers(0, 12))
    elif op in ("&", "|"):
        a, b = draw(_ints), draw(st.integers(0, 255))
    elif op in ("/", "//", "/="):
        a, b = draw(_num), draw(_nz_num)
    else:
        a = draw(_num)
        # equal operands must be frequent enough for == <= >= to matter
        b = draw(st.one_of(_num, _num, st.just(a)))
    return {"op": op, "kind": kind, "a": a, "b": b, "src": draw(st.sampled_from(["ctor", "fiber"]))}


class Operand:
    """One side of a cell: the object handed to the operator, the box that
    holds its value (None for a scalar) and the fiber it lives in, if any."""

    def __init__(self, what, value, src, coord):
        self.what = what
        self.value = value
        self.host = None
        self.coord = coord
        if what == "scalar":
            self.obj = value
            self.box = None
        elif what == "box":
            self.obj = Payload(value)
            self.box = self.obj
        else:
            if src == "fiber":
                self.host = Fiber([coord], [value], shape=coord + 3)
                self.obj = self.host[0]          # position 0 -> CoordPayload sharing the fiber's box
                if not isinstance(self.obj, CoordPayload) or self.obj.payload is not self.host.payloads[0]:
                    raise Violation("element-source", "fiber[0] is not an element sharing the fiber's payload box")
            else:
                self.obj = CoordPayload(coord, value)
            self.box = self.obj.payload
            if not isinstance(self.box, Payload):
                raise Violation("element-source", f"element payload is {type(self.box).__name__}, not a Payload box")

    def current(self):
        """(type name, value) now held by this operand."""
        if self.what == "scalar":
            return plain(self.obj, "scalar operand")
        return plain(self.box, f"{self.what} operand")

    def intact(self, side, desc):
        """The operand still is what it was built as, holding its value."""
        if self.what == "elem":
            if self.obj.payload is not self.box:
                raise Violation("box-identity", f"{desc}: the {side} element's payload box was replaced")
            if self.obj.coord != self.coord:
                raise Violation("element-coord", f"{desc}: the {side} element's coordinate became {self.obj.coord!r}")
            if self.host is not None and (self.host.coords != [self.coord] or self.host.payloads[0] is not self.box):
                raise Violation("box-identity", f"{desc}: the fiber holding the {side} element no longer holds its box")

    def unchanged(self, side, desc):
        self.intact(side, desc)
        if self.current() != tagged(self.value):
            raise Violation("operand-changed", f"{desc}: the {side} operand now holds {self.current()}, "
                                               f"was {tagged(self.value)}")


def tagged(v):
    # (a nan is not equal to itself: tag it by name so that "still the same nan" can be said)
    return (type(v).__name__, "nan" if isinstance(v, float) and v != v else v)


def plain(x, what):
    """Unbox at most one Payload; the content must be a plain number / bool."""
    if isinstance(x, Payload):
        x = x.value
    if isinstance(x, (Payload, CoordPayload, Fiber)) or not isinstance(x, (bool, int, float)):
        raise Violation("result-type", f"{what} holds {type(x).__name__} {x!r} instead of a plain value")
    return tagged(x)


_TE = re.compile(r"unsupported operand type\(s\) for (\S+): '(\w+)' and '(\w+)'")


def typeerror_finding(op, msg):
    """Which missing-operator family a TypeError belongs to: decided by the
    operator and the operand classes Python names in the message (the innermost
    dispatch that found no method)."""
    m = _TE.search(msg)
    if not m:
        return None
    sym, left, right = m.groups()
    if sym.rstrip("=") != op.rstrip("=") and sym != op:
        return None
    base = op[:-1] if op in INPLACE else op
    if "CoordPayload" in (left, right):
        if base == "/":
            return F_ELEM_DIV
        if base in ("//", "<<", "&", "|"):
            return F_ELEM_MISSING
        return None
    if "Payload" in (left, right):
        if base == "//":
            return F_BOX_FLOORDIV
        if right == "Payload" and left != "Payload":
            if base == "/":
                return F_BOX_RDIV
            if base in ("<<", "&", "|"):
                return F_BOX_RBITOPS
    return None


def _known(rec, fid):
    """Count a recognised deviation when its finding is listed open."""
    if fid is not None and findings.is_open(ID, fid):
        rec.known(fid)
        return True
    return False


def check_matrix(case, rec):
    op, kind, a, b = case["op"], case["kind"], case["a"], case["b"]
    lk, rk = kind.split(".")
    src = case.get("src", "ctor")
    A = Operand(lk, a, src, 3)
    B = Operand(rk, b, src, 5)
    desc = f"{lk}({a!r}) {op} {rk}({b!r})" + (" [elements taken from fibers]" if src == "fiber" and "elem" in kind else "")

    group = ("arith" if op in ARITH else "bits" if op in BITS else "cmp" if op in CMP
             else "inplace" if op in INPLACE else "assign")
    rec.cls(group)
    rec.cls(f"kind:{kind}")
    rec.cls("float" if isinstance(a, float) or isinstance(b, float) else "int")
    rec.cls("elem-from-fiber", src == "fiber" and "elem" in kind)
    rec.nontrivial(a != b and a != 0 and b != 0)

    if op == ASSIGN:
        want = tagged(b)
    else:
        want = tagged(PYOP[op[:-1] if op in INPLACE else op](a, b))

    try:
        R = APPLY[op](A.obj, B.obj)
    except TypeError as e:
        # an operator the class docstrings list must not be "unsupported"
        if _known(rec, typeerror_finding(op, str(e))):
            rec.cls("known-deviation")
            return
        raise Violation("unsupported", f"{desc} raised TypeError: {e}")

    # ---- value-returning forms --------------------------------------------
    if group in ("arith", "bits", "cmp"):
        if R is A.box or R is B.box or (R is A.obj and lk != "scalar") or (R is B.obj and rk != "scalar"):
            raise Violation("aliasing", f"{desc} returned one of its operands")
        got = plain(R, f"result of {desc}")
        if got != want:
            raise Violation("value", f"{desc} gave {got}, the values give {want}")
        A.unchanged("left", desc)
        B.unchanged("right", desc)
        return

    # ---- in-place forms with a plain scalar on the left: Python falls back to
    # the value form and rebinds the name
    if lk == "scalar":
        got = plain(R, f"result of {desc}")
        if got != want:
            raise Violation("value", f"{desc} gave {got}, the values give {want}")
        if R is B.box or R is B.obj:
            raise Violation("aliasing", f"{desc} returned its right operand")
        B.unchanged("right", desc)
        return

    # ---- in-place forms / assignment on a box or an element -----------------
    if R is not A.obj:
        fid = None
        if op == "/=" and lk == "box" and isinstance(R, Payload) and plain(R, "result") == want \
                and A.current() == tagged(a):
            fid = F_BOX_IDIV        # no __itruediv__: a new box is bound, the old one keeps its value
        elif op == ASSIGN and lk == "elem" and R is None and A.obj.payload is A.box \
                and A.current() == tagged(b if rk == "elem" else a + b):
            fid = F_ELEM_ILSHIFT    # returns None; scalar / box operand is added instead of assigned
        if _known(rec, fid):
            rec.cls("known-deviation")
            B.unchanged("right", desc)
            return
        raise Violation("same-object", f"{desc} did not leave the same {lk} object: the statement rebinds the name to "
                                       f"{R!r} (left operand now holds {A.current()}, expected {want})")
    if op == "/=" and lk == "elem" and A.obj.payload is not A.box and isinstance(A.obj.payload, Payload) \
            and plain(A.obj.payload, "result") == want and A.current() == tagged(a) \
            and _known(rec, F_BOX_IDIV):
        # the element forwards /= to its box, which (no __itruediv__) answers with a new box
        rec.cls("known-deviation")
        B.unchanged("right", desc)
        return
    A.intact("left", desc)
    if A.current() != want:
        raise Violation("value", f"after {desc} the {lk} holds {A.current()}, expected {want}")
    if rk != "scalar" and B.box is A.box:
        raise Violation("aliasing", f"{desc}: operands share a box")
    B.unchanged("right", desc)


# --------------------------------------------------------------------------
# fibers
# --------------------------------------------------------------------------

def _pair_coords(draw, n, mode):
    universe = list(range(n))
    if mode == "both-empty":
        return [], []
    if mode == "empty-f":
        return [], draw(gen.coord_sets(n, max_elems=5, min_elems=1))
    if mode == "empty-g":
        return draw(gen.coord_sets(n, max_elems=5, min_elems=1)), []
    if mode == "same":
        c = draw(gen.coord_sets(n, max_elems=5, min_elems=1))
        return c, list(c)
    if mode == "disjoint":
        side = [draw(st.integers(0, 2)) for _ in universe]
        return [c for c in universe if side[c] == 0], [c for c in universe if side[c] == 1]
    # every coordinate independently: both / f only / g only / neither
    side = [draw(st.sampled_from([3, 0, 1, 3, 2])) for _ in universe]
    if mode == "partial" and n >= 3:
        both, only_f, only_g = draw(st.permutations(universe))[:3]
        side[both], side[only_f], side[only_g] = 3, 0, 1
    return [c for c in universe if side[c] in (0, 3)], [c for c in universe if side[c] in (1, 3)]


@st.composite
def fiber_cases(draw):
    d = draw(st.sampled_from([1, 1, 1, 2]))
    if d == 1:
        shape = [draw(st.sampled_from([1, 2, 3, 4, 5, 6, 6, 7, 8, 8]))]
    else:
        shape = [draw(st.sampled_from([1, 2, 3, 4, 4, 5])), draw(st.integers(1, 5))]
    mode = draw(st.sampled_from(["rand"] * 5 + ["partial"] * 5 + ["disjoint", "disjoint", "same", "empty-f", "empty-g", "both-empty"]))
    cf, cg = _pair_coords(draw, shape[0], mode)

    def child():
        if d == 1:
            return draw(gen.values(0, floats=True, p_default=0.15))
        return draw(gen.trees(shape[1:], 0, floats=True, max_elems=4))

    f = [[c, child()] for c in cf]
    g = [[c, child()] for c in cg]
    if d == 1 and draw(st.integers(0, 3)) == 0:
        # sums that cancel exactly: g holds the negative of f wherever both store a value (the sum leaves no
        # element there), next to coordinates only one of them has
        fv = dict((c, v) for c, v in f)
        g = [[c, -fv[c] if c in fv and fv[c] != 0 and draw(st.integers(0, 2)) else v] for c, v in g]
    s = draw(st.sampled_from([2, 3, -1, -2, 5, 1, 0, 0.5, -1.5, 0.25, 4.0]))
    # (the left operand may carry a narrowed active range, as a partition of a split does: the statement speaks
    # of the whole shape / the stored elements, not of the active range)
    a0 = draw(st.integers(0, shape[0]))
    factive = draw(st.sampled_from([None, None, [a0, draw(st.integers(a0, shape[0]))]]))
    if factive == [0, 0]:
        factive = None
    return {"depth": d, "shape": shape, "f": f, "g": g, "s": s, "factive": factive,
            "sbox": draw(st.booleans()), "owned": d == 1 and draw(st.booleans())}


def fcontent(f, d, what, prefix=()):
    """{point: (type, value)} of a real fiber, non-zero leaves only."""
    if not isinstance(f, Fiber):
        raise Violation("result-type", f"{what}: expected a Fiber, got {type(f).__name__} {f!r}")
    if len(f.coords) != len(f.payloads):
        raise Violation("malformed", f"{what}: {len(f.coords)} coordinates, {len(f.payloads)} payloads")
    out = {}
    for c, p in zip(f.coords, f.payloads):
        if d == 1:
            t = plain(p, f"{what} at {prefix + (c,)}")
            if t[1] != 0:
                if prefix + (c,) in out:
                    raise Violation("malformed", f"{what}: coordinate {c} stored twice")
                out[prefix + (c,)] = t
        else:
            out.update(fcontent(p, d - 1, what, prefix + (c,)))
    return out


def ftree(f):
    out = []
    for c, p in zip(f.coords, f.payloads):
        out.append([c, ftree(p) if isinstance(p, Fiber) else tagged(Payload.get(p))])
    return out


def _tag(cont):
    return {p: tagged(v) for p, v in cont.items() if v != 0}


def plain_value(v):
    """content values are tagged (type name, value) pairs in this module"""
    return v[1] if isinstance(v, tuple) and len(v) == 2 and isinstance(v[0], str) else v


def o_add(cf, cg):
    return _tag({p: cf.get(p, 0) + cg.get(p, 0) for p in set(cf) | set(cg)})


def o_mul(cf, cg):
    return _tag({p: cf[p] * cg[p] for p in set(cf) & set(cg)})


def o_add_scalar(cf, s, shape):
    return _tag({p: s + cf.get(p, 0) for p in model.all_points(shape)})


def o_mul_scalar(cf, s):
    return _tag({p: s * v for p, v in cf.items()})


def _fmt(cont):
    return {("/".join(map(str, p))): v[1] for p, v in sorted(cont.items())}


def check_fibers(case, rec):
    d, shape, s = case["depth"], case["shape"], case["s"]
    tf, tg = case["f"], case["g"]
    cf = model.content_of_tree(tf, d, 0)
    cg = model.content_of_tree(tg, d, 0)
    keep = []

    def mk_f():
        if case["owned"]:
            f = build.leaf_fiber([c for c, _ in tf], [v for _, v in tf], shape=shape[0], owned=True)
            keep.append(f)
        else:
            f = build.nested_fiber(tf, d, shape, 0)
        if case.get("factive"):
            f.setActive(tuple(case["factive"]))
        return f

    def mk_g():
        return build.nested_fiber(tg, d, shape, 0)

    def mk_s():
        return Payload(s) if case["sbox"] else s

    def same(got, want, what):
        # numeric equality: whether an intermediate that equals the default (0.0 after a cancelling float sum) is
        # kept as an explicit element or dropped is not stated, and that alone can turn a later int into a float
        if set(got) != set(want) or any(plain_value(got[p]) != plain_value(want[p]) for p in got):
            raise Violation("fiber-value", f"{what}: content {_fmt(got)}, expected {_fmt(want)}  "
                                           f"[f={tf} g={tg} s={s!r} shape={shape}]")

    def untouched(x, before, what):
        if ftree(x) != before:
            raise Violation("operand-changed", f"{what}: operand changed from {before} to {ftree(x)}")

    def value_form(fn, x, y, want, what, within=None):
        bx = ftree(x) if isinstance(x, Fiber) else None
        by = ftree(y) if isinstance(y, Fiber) else None
        r = fn(x, y)
        if r is x or r is y:
            raise Violation("aliasing", f"{what} returned one of its operands")
        same(fcontent(r, d, what), want, what)
        # a product has elements only where the operands have them ("over the
        # intersection", "scale the stored elements")
        if within is not None and not set(r.coords) <= within:
            raise Violation("fiber-coords", f"{what}: result stores coordinates {r.coords}, the operands only share "
                                            f"{sorted(within)}  [f={tf} g={tg} s={s!r} shape={shape}]")
        if bx is not None:
            untouched(x, bx, what)
        if by is not None:
            untouched(y, by, what)
        for z in (x, y):
            if isinstance(z, Payload) and plain(z, "scalar box") != tagged(s):
                raise Violation("operand-changed", f"{what}: the boxed scalar now holds {z.value!r}")

    def inplace_form(fn, y, want, what, tolerate=None):
        x = mk_f()
        by = ftree(y) if isinstance(y, Fiber) else None
        r = fn(x, y)
        if r is not x:
            raise Violation("same-object", f"{what} rebinds the name to {type(r).__name__} instead of updating the fiber")
        got = fcontent(x, d, what)
        if got != want:
            if tolerate is not None and got == tolerate[1] and _known(rec, tolerate[0]):
                rec.cls("known-deviation")
            else:
                same(got, want, what)
        if by is not None:
            untouched(y, by, what)
        if isinstance(y, Payload) and plain(y, "scalar box") != tagged(s):
            raise Violation("operand-changed", f"{what}: the boxed scalar now holds {y.value!r}")

    add, mul = o_add(cf, cg), o_mul(cf, cg)
    value_form(operator.add, mk_f(), mk_g(), add, "f + g")
    value_form(operator.add, mk_g(), mk_f(), add, "g + f")
    stored_f, stored_g = {c for c, _ in tf}, {c for c, _ in tg}
    value_form(operator.mul, mk_f(), mk_g(), mul, "f * g", within=stored_f & stored_g)
    value_form(operator.mul, mk_g(), mk_f(), mul, "g * f", within=stored_f & stored_g)
    inplace_form(operator.iadd, mk_g(), add, "f += g")
    # P4: the in-place product keeps the top-level elements of f that g does not have
    top_g = {p[0] for p in cg}
    stale = dict(mul)
    stale.update(_tag({p: v for p, v in cf.items() if p[0] not in top_g}))
    inplace_form(operator.imul, mk_g(), mul, "f *= g", tolerate=(F_FIBER_IMUL, stale))
    if d == 1:
        adds, muls = o_add_scalar(cf, s, shape), o_mul_scalar(cf, s)
        value_form(operator.add, mk_f(), mk_s(), adds, "f + s")
        value_form(operator.add, mk_s(), mk_f(), adds, "s + f")
        value_form(operator.mul, mk_f(), mk_s(), muls, "f * s", within=stored_f)
        value_form(operator.mul, mk_s(), mk_f(), muls, "s * f", within=stored_f)
        inplace_form(operator.iadd, mk_s(), adds, "f += s")
        inplace_form(operator.imul, mk_s(), muls, "f *= s")
        # the forms composed: what an earlier in-place operation leaves behind (e.g. the active range that
        # populate copies from its source) must not change what the next one does
        seq_add = o_add_scalar({p: plain_value(v) for p, v in add.items()}, s, shape)
        def mk_g_narrow():
            g = mk_g()
            if g.coords:
                g.setActive((g.coords[0], g.coords[-1] + 1))      # an active range narrower than the shape
            return g
        x = mk_f()
        x += mk_g_narrow()
        x += mk_s()
        same(fcontent(x, d, "f += g; f += s"), seq_add, "f += g (narrow active range); f += s")
        seq_mul = o_mul_scalar({p: plain_value(v) for p, v in add.items()}, s)
        x = mk_f()
        x += mk_g()
        x *= mk_s()
        same(fcontent(x, d, "f += g; f *= s"), seq_mul, "f += g; f *= s")

    # classification
    pf, pg = set(cf), set(cg)
    rec.cls(f"depth{d}")
    rec.cls("empty-f", not pf)
    rec.cls("empty-g", not pg)
    rec.cls("an-empty-operand", not pf or not pg)
    rec.cls("disjoint", bool(pf) and bool(pg) and not (pf & pg))
    partial = bool(pf & pg) and bool(pf - pg) and bool(pg - pf)
    rec.cls("partial-overlap", partial)
    rec.cls("f-has-points-outside-g", bool(pf - pg))
    rec.cls("nested-overlap", bool(pf & pg) and not partial)
    rec.cls("explicit-default", model.has_explicit_default(tf, d, 0) or model.has_explicit_default(tg, d, 0))
    rec.cls("empty-subfiber", model.has_empty_subfiber(tf, d) or model.has_empty_subfiber(tg, d))
    rec.cls("cancelling-sum", any(cf[p] + cg[p] == 0 for p in pf & pg))
    rec.cls("owned", case["owned"])
    rec.cls("float", any(isinstance(v, float) for v in list(cf.values()) + list(cg.values()) + [s]))
    rec.cls("scalar-boxed", d == 1 and case["sbox"])
    rec.cls("scalar-zero", d == 1 and s == 0)
    rec.nontrivial(partial)


# ---------------------------------------------------------------- non-zero defaults: in-place vs value form
@st.composite
def nzd_cases(draw):
    """1-level fibers with a non-zero default (0 is then an ordinary stored value).  What + and * mean for
    absent elements of such fibers is not defined by the docstrings, but 'each in-place form leaves the fiber
    with the same content its value-returning form would have produced' needs no further oracle: it is checked
    for the forms that are self-consistent for such fibers (*= fiber, += scalar, *= scalar; f += g pads
    differently from f + g there and is left out)."""
    op = draw(st.sampled_from(["imul_fiber", "iadd_scalar", "imul_scalar"]))
    d = draw(st.sampled_from([2, 7, -1]))
    S = draw(st.integers(1, 7))
    def fib():
        cs = sorted(draw(st.sets(st.integers(0, S - 1), max_size=S)))
        return [[c, draw(st.sampled_from([0, 1, d, 3, -2, 5]))] for c in cs]
    return {"op": op, "default": d, "shape": S, "f": fib(), "g": fib(),
            "s": draw(st.sampled_from([0, 2, -1, d, 3])), "owned": draw(st.booleans())}


def check_nzd(case, rec):
    import copy as _copy
    from .. import build as _build
    d, S = case["default"], case["shape"]
    def mk(elems, owned=False):
        return _build.leaf_fiber([c for c, _ in elems], [v for _, v in elems], shape=S, default=d, owned=owned)
    f, g = mk(case["f"], case["owned"]), mk(case["g"])
    f2 = _copy.deepcopy(f)
    op = case["op"]
    if op == "imul_fiber":
        v = f * g
        f2 *= g
    elif op == "iadd_scalar":
        v = f + case["s"]
        f2 += case["s"]
    else:
        v = f * case["s"]
        f2 *= case["s"]
    dv = [Payload.get(v.getPayload(c)) for c in range(S)]
    di = [Payload.get(f2.getPayload(c)) for c in range(S)]
    if dv != di:
        raise Violation("inplace-vs-value", f"{op} with default {d}: value form reads {dv} over the shape, in-place "
                        f"form {di}; f={case['f']} g={case['g']} s={case['s']}")
    rec.cls("nzd:" + op)
    rec.cls("stored-zero", any(x == 0 for _, x in case["f"]))
    rec.nontrivial(len(case["f"]) >= 2 and (op != "imul_fiber" or 0 < len(set(c for c, _ in case["f"]) & set(c for c, _ in case["g"])) < len(case["f"])))


# ---------------------------------------------------------------- truth value of a box (not / and / or / bool)
TRUTH_VALUES = [0, 0.0, 1, -2, 0.5, 2 ** 60, -0.0]


def truth_cases(tier):
    for v in TRUTH_VALUES:
        for form in ("bool", "not", "and", "or", "if"):
            yield {"v": v, "form": form}


def check_truth(case, rec):
    """Python's logical operators go through the truth value: that of a box is the truth value of what it holds"""
    v, form = case["v"], case["form"]
    box = Payload(v)
    if form == "bool":
        got, want = bool(box), bool(v)
    elif form == "not":
        got, want = (not box), (not v)
    elif form == "and":
        got, want = (box and 7), (v and 7)
        got = Payload.get(got)
    elif form == "or":
        got, want = (box or 7), (v or 7)
        got = Payload.get(got)
    else:
        got, want = (1 if box else 2), (1 if v else 2)
    if got != want or type(got) is not type(want):
        raise Violation("truth", f"{form} on Payload({v!r}) gives {got!r}, on the value {want!r}")
    if Payload.get(box) != v:
        raise Violation("operand-changed", f"{form} changed the box to {box!r}")
    rec.cls(form)
    rec.nontrivial(not v)


PARTS = [
    Part("truth", None, check_truth, n_quick=0, n_thorough=0, enumerate=truth_cases,
         exhaustive_note=f"bool / not / and / or / if on a box holding each of {len(TRUTH_VALUES)} values"),
    Part("nonzero-default", nzd_cases(), check_nzd, n_quick=1200, n_thorough=6000),
    Part("matrix", matrix_cases(), check_matrix, n_quick=3000, n_thorough=20000, enumerate=enumerate_matrix,
         exhaustive_note=f"all {len(CELLS)} cells (operator x operand kinds) of the Payload / CoordPayload operator "
                         f"matrix, each with the fixed table of {len(TABLE_GEN)} value pairs ({len(TABLE_BIT)} for "
                         f"<< & |), elements alternately constructed and taken from a fiber"),
    Part("fibers", fiber_cases(), check_fibers, n_quick=2000, n_thorough=12000),
]


def coverage_warnings(rec):
    out = []
    n = max(1, sum(v for k, v in rec.classes.items() if k.startswith("fibers:depth")))
    for k, floor in (("fibers:partial-overlap", 0.2), ("fibers:disjoint", 0.04), ("fibers:an-empty-operand", 0.05),
                     ("fibers:explicit-default", 0.15), ("fibers:depth2", 0.1), ("fibers:owned", 0.15),
                     ("fibers:f-has-points-outside-g", 0.3)):
        if rec.classes.get(k, 0) / n < floor:
            out.append(f"{k} only {rec.classes.get(k, 0)}/{n}")
    for k in KINDS:
        if rec.classes.get(f"matrix:kind:{k}", 0) < 100:
            out.append(f"matrix:kind:{k} only {rec.classes.get(f'matrix:kind:{k}', 0)}")
    return out


# --------------------------------------------------------------------------
# pinned reproducers of the confirmed defects (return a string while the
# defect reproduces, None once it is gone)
# --------------------------------------------------------------------------

def _raises_typeerror(fn):
    try:
        fn()
    except TypeError as e:
        return f"TypeError: {e}"
    return None


def _pin_elem_ilshift():
    e = CoordPayload(1, 4)
    r = operator.ilshift(e, 6)
    if r is not e or e.payload != 6:
        return f"e = CoordPayload(1, 4); e <<= 6 -> name bound to {r!r}, element holds {e.payload!r} (expected 6)"
    return None


def _pin_elem_div():
    return (_raises_typeerror(lambda: CoordPayload(1, 12) / 4)
            or _raises_typeerror(lambda: 12 / CoordPayload(1, 4))
            or _raises_typeerror(lambda: operator.itruediv(CoordPayload(1, 12), 4)))


def _pin_elem_missing():
    e = lambda: CoordPayload(1, 12)  # noqa: E731
    return (_raises_typeerror(lambda: e() // 5) or _raises_typeerror(lambda: e() << 2)
            or _raises_typeerror(lambda: e() & 4) or _raises_typeerror(lambda: e() | 3)
            or _raises_typeerror(lambda: 50 // e()) or _raises_typeerror(lambda: 1 << e())
            or _raises_typeerror(lambda: 4 & e()) or _raises_typeerror(lambda: 3 | e()))


def _pin_box_rdiv():
    return _raises_typeerror(lambda: 12 / Payload(4))


def _pin_box_idiv():
    p = Payload(12)
    q = operator.itruediv(p, 4)
    if q is not p or p.value != 3.0:
        return f"p = Payload(12); p /= 4 -> new box {q!r}, the original box still holds {p.value!r}"
    return None


def _pin_box_floordiv():
    return (_raises_typeerror(lambda: Payload(12) // 5) or _raises_typeerror(lambda: Payload(12) // Payload(5))
            or _raises_typeerror(lambda: 12 // Payload(5)))


def _pin_box_rbitops():
    return (_raises_typeerror(lambda: 1 << Payload(3)) or _raises_typeerror(lambda: 6 & Payload(3))
            or _raises_typeerror(lambda: 4 | Payload(3)))


def _pin_fiber_imul():
    f = Fiber([0, 2], [1, 3], shape=4)
    g = Fiber([2], [5], shape=4)
    want = fcontent(f * g, 1, "f * g")
    f *= g
    got = fcontent(f, 1, "f *= g")
    if got != want:
        return f"f=Fiber([0,2],[1,3]); g=Fiber([2],[5]); f *= g leaves {_fmt(got)}, f * g is {_fmt(want)}"
    return None


PINNED = {
    F_ELEM_ILSHIFT: _pin_elem_ilshift,
    F_ELEM_DIV: _pin_elem_div,
    F_ELEM_MISSING: _pin_elem_missing,
    F_BOX_RDIV: _pin_box_rdiv,
    F_BOX_IDIV: _pin_box_idiv,
    F_BOX_FLOORDIV: _pin_box_floordiv,
    F_BOX_RBITOPS: _pin_box_rbitops,
    F_FIBER_IMUL: _pin_fiber_imul,
}
