"""C05 -- populate (z << a) offers exactly a's coordinates and keeps only what was written."""

from hypothesis import strategies as st

from fibertree import Fiber, Payload, Tensor

from .. import build, gen, model, observe, machine
from ..core import Part, Violation

ID = "C05"
RULE = ("Destination and source trees of equal depth 1-3 over a common shape (destination empty / disjoint / "
        "overlapping / superset by construction of the draw; explicit defaults and empty sub-fibers on both sides; "
        "destination an owned tensor via every route or an unowned fiber (depth<=2); source owned with top rank "
        "format C or U, or unowned) and a loop-body plan: per offered point descend / skip at interior levels and "
        "leave / <<= v / += v / <<= default / write-then-default at the leaves; optional legal start_pos for "
        "1-level loops. Oracle: the sequence offered at every level equals the source's presented coordinates in "
        "order, with the source's own payload objects and references showing the destination's current value; "
        "afterwards content(z) = content_before overridden by the writes; nothing the loop created remains where the "
        "final value is the default; elements of z outside a are the same objects with the same snapshot; a (and "
        "its rank lists) unchanged; z well-formed and rank-consistent at every yield and after the loop. "
        "Part lazy-source: one-level z << (a & b | a | b | a ^ b | a - b | a.project(shift)) with the same body "
        "plans and the same oracle on z (offered coordinates = the set operation over what a and b present with "
        "THEIR default). Non-trivial: >=1 created-then-removed coordinate and >=1 retained write in one loop on a non-empty "
        "destination. Distinct = SHA-1 of the case.")
ASSUMPTIONS = ["source and destination share depth and shape (the kernel idiom); their leaf defaults may differ",
               "start_pos is legal: the first source coordinate lies above z.coords[start_pos-1]"]


@st.composite
def cases(draw):
    d = draw(st.sampled_from([1, 1, 2, 2, 3]))
    shape = [draw(st.integers(1, 6)) for _ in range(d)]
    default = draw(st.sampled_from([0, 0, 0, 2]))
    z = draw(gen.tree_specs(shape=shape, defaults=(default,), max_elems=5))
    # (now and then the source has another leaf default than the destination, as a lazy source has: what the
    # source presents follows ITS default, what stays in z follows z's)
    adefault = draw(st.sampled_from([default, default, default, 5, 0]))
    a = draw(gen.tree_specs(shape=shape, defaults=(adefault,), max_elems=5))
    zhow = ["ref", "fiber", "uncompressed", "yaml", "deepcopy"] + (["unowned", "unowned"] if d <= 2 else [])
    return {"z": z, "a": a, "zhow": draw(st.sampled_from(zhow)),
            "ahow": draw(st.sampled_from(["ref", "fiber", "unowned", "U", "unowned-U"])),
            "plan": list(draw(st.permutations(["leave", "assign", "assign", "acc", "default", "writethendefault"])))[
                :draw(st.integers(1, 6))],
            "descend": draw(st.lists(st.sampled_from(["descend", "descend", "descend", "skip", "reserve"]),
                                    min_size=1, max_size=4)),
            "val": draw(gen.nondefault_values(default)),
            "sp": draw(st.one_of(st.none(), st.integers(0, 8))),
            # the destination's (top) rank may be declared uncompressed as well
            "zfmtU": draw(st.sampled_from([False, False, False, False, True])),
            # an uncompressed source may carry an active range narrower than its shape (a tile of a split rank):
            # it presents that range; all its elements lie inside
            "aact": draw(st.sampled_from([None, None, [draw(st.integers(0, 6)), draw(st.integers(0, 6))]]))}


def presented(tree, d, default, fmt, shape0, active=None):
    """[(coord, child | None)] offered by a fiber: None = absent coordinate of an uncompressed rank"""
    if fmt == "U":
        m = {c: ch for c, ch in tree}
        lo, hi = active if active else (0, shape0)
        return [(c, m.get(c)) for c in range(lo, hi)]
    return [(c, ch) for c, ch in model.presented(tree, d, default)]


def check(case, rec):
    zs, as_ = case["z"], case["a"]
    d, default, shape = model.depth(zs), zs["default"], zs["shape"]
    m = machine.Machine(zs, case["zhow"])
    z = m.root
    if case.get("zfmtU") and m.owned:
        m.t.setFormat(zs["rank_ids"][0], "U")
        rec.cls("destination-U")
    adefault = as_["default"]
    if case["ahow"] in ("unowned", "unowned-U"):
        a_t, a = None, build.build_fiber(as_, name_ranks=True)
        if case["ahow"] == "unowned-U":
            a.getRankAttrs().setFormat("U")          # an unowned fiber declares its format itself
    else:
        a_t = build.build_tensor(as_, "ref" if case["ahow"] == "U" else case["ahow"])
        if case["ahow"] == "U":
            a_t.setFormat(as_["rank_ids"][0], "U")
        a = a_t.getRoot()
    afmt = "U" if case["ahow"] in ("U", "unowned-U") else "C"
    aact = None
    if afmt == "U" and case.get("aact"):
        cs = [c for c, _ in as_["tree"]]
        lo = min([case["aact"][0] % shape[0]] + cs)
        hi = max([lo + 1 + case["aact"][1] % (shape[0] - lo)] + [c + 1 for c in cs])
        if (lo, hi) != (0, shape[0]):
            aact = (lo, hi)
            a.setActive(aact)
    plan = machine.Plan(case["plan"], case["descend"], case["val"], default)
    plan.shape = list(shape)

    a_snap = observe.snap(a)
    a_ranks = observe.rank_lists(a_t) if a_t else None
    z_before_tree = observe.tree_of(z)
    z_before_objs = {c: p for c, p in zip(z.coords, z.payloads)}
    z_before_snaps = {c: observe.snap(p) for c, p in zip(z.coords, z.payloads)}
    cont_before = observe.content_of(z, d, default)

    # ---- model of what must be offered, level by level, and of the writes
    expected_offers = []        # (point, level)
    writes = {}                 # point -> final value
    created_removed = [0]
    retained = [0]
    reserved = set()

    def walk(ztree, atree, lvl, prefix, fmt):
        zmap = {c: ch for c, ch in ztree}
        for c, ach in presented(atree, d - lvl, adefault, fmt, shape[lvl], aact if lvl == 0 else None):
            pt = prefix + (c,)
            expected_offers.append((pt, lvl))
            if lvl == d - 1:
                cur = zmap.get(c, default)
                act, v = plan.action(pt), plan.value(pt)
                new = {"leave": cur, "assign": v, "acc": cur + v, "default": default, "writethendefault": default}[act]
                writes[pt] = new
                if c not in zmap and new == default:
                    created_removed[0] += 1
                if new != default and act in ("assign", "acc"):
                    retained[0] += 1
            else:
                what = plan.descend(pt)
                if what == "descend":
                    walk(zmap.get(c, []), ach if ach is not None else [], lvl + 1, pt, "C")
                elif what == "reserve":
                    reserved.add(pt)          # the body itself builds structure below: it stays
                elif c not in zmap:
                    created_removed[0] += 1

    walk(z_before_tree, as_["tree"], 0, (), afmt)

    # ---- run, observing every yield
    offers = []
    a_index = {}

    def on_yield(pt, z_ref, a_val, dd):
        lvl = len(pt) - 1
        offers.append((pt, lvl))
        # the reference shows z's current value
        if dd == 1:
            want = cont_before.get(pt, default)
            if not isinstance(z_ref, Payload) or isinstance(z_ref.value, (Payload, Fiber)) or z_ref.value != want:
                raise Violation("ref-value", f"reference offered at {pt} shows {z_ref!r}, z holds {want}")
        else:
            if not isinstance(z_ref, Fiber):
                raise Violation("ref-kind", f"reference offered at {pt} (interior) is {z_ref!r}")
            want = {p[len(pt):]: v for p, v in cont_before.items() if p[:len(pt)] == pt}
            if observe.content_of(z_ref, dd - 1, default) != want:
                raise Violation("ref-value", f"sub-fiber reference at {pt} holds "
                                f"{observe.content_of(z_ref, dd - 1, default)}, z holds {want}")
        # it is the stored payload (aliasing) ...
        if machine_stored(z, pt) is not z_ref:
            raise Violation("ref-alias", f"reference offered at {pt} is not the payload stored in z at that point")
        # ... and the source payload is a's own object (or a fresh default for a hole of an uncompressed rank)
        so = machine_stored(a, pt)
        if so is not None:
            if so is not a_val:
                raise Violation("source-identity", f"source payload offered at {pt} is not a's stored payload")
        elif not (afmt == "U" and lvl == 0):
            raise Violation("source-identity", f"source payload offered at {pt} but a stores nothing there")
        observe.wellformed(z, d, f"at yield {pt}")
        if m.owned:
            observe.rank_consistency(m.t, f"at yield {pt}")

    stats = {"offered": 0, "written": 0, "removed": 0}
    sp = None
    if d == 1 and case["sp"] is not None and z.coords:
        first = next((c for c, _ in presented(as_["tree"], 1, adefault, afmt, shape[0], aact)), None)
        if first is not None:
            legal = [p for p in range(len(z.coords) + 1) if p == 0 or first > z.coords[p - 1]]
            sp = legal[case["sp"] % len(legal)]
    if sp is None:
        machine.run_populate(z, a, plan, d, (), stats, on_yield=on_yield)
    else:
        for c, (z_ref, a_val) in z.__lshift__(a, start_pos=sp):
            pt = (c,)
            on_yield(pt, z_ref, a_val, 1)
            act, v = plan.action(pt), plan.value(pt)
            if act == "assign":
                z_ref <<= v
            elif act == "acc":
                z_ref += v
            elif act == "default":
                z_ref <<= default
            elif act == "writethendefault":
                z_ref <<= v
                z_ref <<= default
        rec.cls("start-pos")

    if offers != expected_offers:
        raise Violation("offered", f"loop bodies ran at {offers}, the source presents {expected_offers}; "
                        f"a={as_['tree']} (format {afmt}) z={z_before_tree}")

    # ---- after the loop
    want = dict(cont_before)
    for pt, v in writes.items():
        if v == default:
            want.pop(pt, None)
        else:
            want[pt] = v
    got = observe.content_of(z, d, default)
    if got != want:
        raise Violation("content", f"after the loop z holds {got}, expected {want}; z before {z_before_tree}, "
                        f"a={as_['tree']}, plan={case['plan']}/{case['descend']}")
    observe.wellformed(z, d, "after the loop")
    if m.owned:
        observe.rank_consistency(m.t, "after the loop")
    # nothing created by the loop remains where the final content is empty
    after_tree = observe.tree_of(z)

    def leftovers(before, after, lvl, prefix):
        bmap = {c: ch for c, ch in before}
        for c, ch in after:
            pt = prefix + (c,)
            if pt in reserved:
                # structure the body created by hand below the offered sub-fiber holds no value: whether the
                # loop keeps it (as created) or drops it ("no sub-fiber behind") is not decided by the statement
                continue
            if c not in bmap:
                sub = {p: v for p, v in want.items() if p[:len(pt)] == pt}
                if not sub and not any(r[:len(pt)] == pt for r in reserved):
                    raise Violation("leftover", f"the loop created {pt} and left it behind although its final "
                                    f"value is the default (stored: {ch})")
                if lvl < d - 1:
                    leftovers([], ch, lvl + 1, pt)
            elif lvl < d - 1:
                leftovers(bmap[c], ch, lvl + 1, pt)

    leftovers(z_before_tree, after_tree, 0, ())
    # "coordinates the body left at the default leave no element behind": at every leaf point the body
    # was offered, no explicit default is stored afterwards (whether the element existed before or not)
    for pt, lvl in expected_offers:
        if lvl == d - 1:
            so = machine_stored(z, pt)
            if so is not None and Payload.get(so) == default:
                raise Violation("explicit-default-left", f"the body left {pt} at the default but an element holding "
                                f"the default is stored there after the loop (z before: {z_before_tree})")
    # coordinates of z outside a: same objects, same snapshot
    offered_top = {pt[0] for pt, lvl in expected_offers if lvl == 0}
    for c, p in z_before_objs.items():
        if c in offered_top:
            continue
        if c not in z.coords or z.payloads[z.coords.index(c)] is not p:
            raise Violation("untouched", f"element {c} of z (not offered by a) was removed or replaced")
        if observe.snap(p) != z_before_snaps[c]:
            raise Violation("untouched", f"element {c} of z (not offered by a) changed")
    # the source
    if observe.snap(a) != a_snap:
        raise Violation("source-modified", f"a changed: {a_snap} -> {observe.snap(a)}")
    if a_t is not None and observe.rank_lists(a_t) != a_ranks:
        raise Violation("source-modified", "rank lists of a's tensor changed")

    zmax = max((c for c, _ in z_before_tree), default=None)
    first = expected_offers[0][0][0] if expected_offers else None
    rec.cls("inserting", zmax is not None and first is not None and first < zmax)
    rec.cls("source-U", afmt == "U")
    rec.cls("source-U-narrowed-active-range", aact is not None)
    rec.cls("source-unowned-U", case["ahow"] == "unowned-U")
    rec.cls("source-default-differs", adefault != default)
    rec.cls("z-owned" if m.owned else "z-unowned")
    rec.cls(f"depth{d}")
    rec.cls("created-removed", created_removed[0] > 0)
    rec.cls("z-empty", not z_before_tree)
    rec.cls("body-reserves-structure", bool(reserved))
    rec.nontrivial(created_removed[0] > 0 and retained[0] > 0 and bool(cont_before))


def machine_stored(root, pt):
    f = root
    for c in pt:
        if not isinstance(f, Fiber) or c not in f.coords:
            return None
        f = f.payloads[f.coords.index(c)]
    return f


# ---------------------------------------------------------------- lazy sources (z << (a & b), z << (a | b) ...)
LAZY = ["and", "or", "xor", "sub", "project", "and", "or"]


@st.composite
def lazy_cases(draw):
    n = draw(st.integers(1, 6))
    default = draw(st.sampled_from([0, 0, 0, 2]))
    sdefault = draw(st.sampled_from([default, default, 0, 5]))
    return {"op": draw(st.sampled_from(LAZY)), "shift": draw(st.integers(0, 2)),
            "z": draw(gen.tree_specs(shape=[n + 2], defaults=(default,), max_elems=5)),
            "a": draw(gen.tree_specs(shape=[n], defaults=(sdefault,), max_elems=5)),
            "b": draw(gen.tree_specs(shape=[n], defaults=(sdefault,), max_elems=5)),
            "zhow": draw(st.sampled_from(["ref", "fiber", "uncompressed", "unowned", "unowned"])),
            "owned": draw(st.booleans()),
            "plan": list(draw(st.permutations(["leave", "assign", "assign", "acc", "default", "writethendefault"])))[
                :draw(st.integers(1, 6))],
            "val": draw(gen.nondefault_values(default))}


def check_lazy(case, rec):
    zs = case["z"]
    default, sdefault = zs["default"], case["a"]["default"]
    m = machine.Machine(zs, case["zhow"])
    z = m.root
    srcs = []
    for key in ("a", "b"):
        if case["owned"]:
            t = build.build_tensor(case[key], "ref")
            srcs.append((t.getRoot(), t))
        else:
            srcs.append((build.build_fiber(case[key], name_ranks=True), None))
    (a, a_t), (b, b_t) = srcs
    A = [c for c, v in case["a"]["tree"] if v != sdefault]
    B = [c for c, v in case["b"]["tree"] if v != sdefault]
    op, k = case["op"], case["shift"]
    if op == "and":
        src, want_c = a & b, [c for c in A if c in B]
    elif op == "or":
        src, want_c = a | b, sorted(set(A) | set(B))
    elif op == "xor":
        src, want_c = a ^ b, sorted(set(A) ^ set(B))
    elif op == "sub":
        src, want_c = a - b, [c for c in A if c not in B]
    else:
        src, want_c = a.project(lambda c: c + k), [c + k for c in A]
    plan = machine.Plan(case["plan"], ["descend"], case["val"], default)
    snaps = [(observe.snap(f), observe.rank_lists(t) if t else None) for f, t in srcs]
    z_before = observe.tree_of(z)
    z_objs = {c: p for c, p in zip(z.coords, z.payloads)}
    z_snaps = {c: observe.snap(p) for c, p in zip(z.coords, z.payloads)}
    cont = observe.content_of(z, 1, default)
    offered, want = [], dict(cont)
    created_removed = retained = 0
    for c, (z_ref, _) in z << src:
        offered.append(c)
        cur = want.get((c,), default)
        if not isinstance(z_ref, Payload) or isinstance(z_ref.value, (Payload, Fiber)) or z_ref.value != cur:
            raise Violation("ref-value", f"z << ({op}): reference offered at {c} shows {z_ref!r}, z holds {cur}")
        if machine_stored(z, (c,)) is not z_ref:
            raise Violation("ref-alias", f"z << ({op}): reference offered at {c} is not the payload stored in z there")
        observe.wellformed(z, 1, f"at yield {c}")
        act, v = plan.action((c,)), plan.value((c,))
        if act == "assign":
            z_ref <<= v
        elif act == "acc":
            z_ref += v
        elif act == "default":
            z_ref <<= default
        elif act == "writethendefault":
            z_ref <<= v
            z_ref <<= default
        new = {"leave": cur, "assign": v, "acc": cur + v, "default": default, "writethendefault": default}[act]
        if new == default:
            want.pop((c,), None)
            created_removed += (c,) not in cont
        else:
            want[(c,)] = new
            retained += act in ("assign", "acc")
    if offered != want_c:
        raise Violation("offered", f"z << (a {op} b): loop bodies ran at {offered}, the source presents {want_c}; "
                        f"a={case['a']['tree']} b={case['b']['tree']} (default {sdefault}) shift={k}")
    got = observe.content_of(z, 1, default)
    if got != want:
        raise Violation("content", f"z << (a {op} b): z holds {got}, expected {want}; z before {z_before}")
    observe.wellformed(z, 1, "after the loop")
    if m.owned:
        observe.rank_consistency(m.t, "after the loop")
    for c in offered:
        so = machine_stored(z, (c,))
        if so is not None and Payload.get(so) == default:
            kind = "explicit-default-left" if c in z_objs else "leftover"
            raise Violation(kind, f"z << (a {op} b): the body left {c} at the default but an element holding the default "
                            f"is stored there after the loop (z before: {z_before}, source default {sdefault})")
    for c, p in z_objs.items():
        if c in offered:
            continue
        if c not in z.coords or z.payloads[z.coords.index(c)] is not p or observe.snap(p) != z_snaps[c]:
            raise Violation("untouched", f"z << (a {op} b): element {c} of z (not offered) was removed, replaced or changed")
    for (f, t), (sn, rl) in zip(srcs, snaps):
        if observe.snap(f) != sn or (t is not None and observe.rank_lists(t) != rl):
            raise Violation("source-modified", f"z << (a {op} b) changed an operand of the source")
    rec.cls("lazy-" + op)
    rec.cls("source-default-differs", sdefault != default)
    rec.cls("created-removed", created_removed > 0)
    rec.nontrivial(created_removed > 0 and retained > 0 and bool(cont))


# ---------------------------------------------------------------- long destinations (position arithmetic over distance)
@st.composite
def long_cases(draw):
    """one level, a destination with many stored elements and a source with a few coordinates spread over the
    whole shape: the loop has to move far through z between two offered coordinates"""
    S = draw(st.sampled_from([24, 40, 50]))
    default = draw(st.sampled_from([0, 0, 2]))
    zc = sorted(draw(st.sets(st.integers(0, S - 1), min_size=10, max_size=30)))
    ac = sorted(draw(st.sets(st.integers(0, S - 1), min_size=1, max_size=4)))
    z = {"rank_ids": ["M"], "shape": [S], "default": default,
         "tree": [[c, draw(gen.values(default, p_default=0.1))] for c in zc]}
    a = {"rank_ids": ["M"], "shape": [S], "default": default,
         "tree": [[c, draw(gen.nondefault_values(default))] for c in ac]}
    return {"z": z, "a": a, "zhow": draw(st.sampled_from(["ref", "fiber", "unowned"])),
            "ahow": draw(st.sampled_from(["ref", "unowned"])),
            "plan": list(draw(st.permutations(["leave", "assign", "assign", "acc", "default", "writethendefault"])))[
                :draw(st.integers(1, 6))],
            "descend": ["descend"], "val": draw(gen.nondefault_values(default)), "sp": None}


PARTS = [Part("populate", cases(), check, n_quick=4000, n_thorough=30000),
         Part("long-destination", long_cases(), check, n_quick=400, n_thorough=4000),
         Part("lazy-source", lazy_cases(), check_lazy, n_quick=1500, n_thorough=8000)]


def coverage_warnings(rec):
    n = max(1, sum(v for k, v in rec.classes.items() if k.startswith("populate:depth")))
    out = []
    for k, floor in (("populate:inserting", 0.2), ("populate:created-removed", 0.15)):
        if rec.classes.get(k, 0) / n < floor:
            out.append(f"{k} only {rec.classes.get(k, 0)}/{n}")
    return out
