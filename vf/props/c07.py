"""C07 -- every traversal mode enumerates exactly the slice of content it names."""

from hypothesis import strategies as st

from fibertree import Fiber, Payload, Tensor

from .. import build, gen, model, observe, findings
from ..core import Part, Violation
from .c04 import fiber_desc, build_operand, iterate

ID = "C07"
RULE = ("One fiber (leaf or 2-level; owned root of a tensor with rank format C or U, or unowned; optional active "
        "range; per-coordinate state absent / value / explicit default or non-empty / empty / all-default "
        "sub-fiber) and a list of traversal requests drawn from occupancy / range / active / shape / active-shape / "
        "range-shape(step) iteration, their reference-creating forms, __iter__, dense co-iteration over 1-3 fibers "
        "(with and without reference creation), project (slope +-1,+-2, offset, optional interval, start_pos), "
        "prune, and lazy results (& | - << project prune) iterated twice and materialised with fromLazy; every "
        "request with every kind of legal start_pos. Oracle: model list of (coordinate, stored index | default); "
        "payload identity; snapshot unchanged (non-ref) or grown by exactly the visited absent coordinates (ref); "
        "the position a shortcut traversal saves continues the traversal correctly. Non-trivial: fiber with >=1 explicit default (or empty/all-default "
        "sub-fiber) and >=2 non-empty elements and a request with a proper sub-range, a shortcut, a reversing "
        "projection or a lazy re-iteration. Distinct = SHA-1 of the case.")
ASSUMPTIONS = ["start_pos is legal: in range and no presented element of the request precedes it",
               "projection functions are strictly monotone affine maps (the documented precondition)",
               "prune callbacks return True/False (the property does not claim the docstring's None=stop)"]


TRAVERSALS = ["iterOccupancy", "iterRange", "iterActive", "iter", "iterShape", "iterActiveShape", "iterRangeShape",
              "iterShapeRef", "iterActiveShapeRef", "iterRangeShapeRef"]


def traversal(S, name, r, sp, U):
    """(iterator, model list of (coord, stored index | None), coordinates a reference form visits | None)"""
    f, (a0, a1) = S.fiber, S.active
    kw = {} if sp is None else {"start_pos": sp}
    if name == "iterOccupancy":
        return f.iterOccupancy(**kw), S.occ(), None
    if name == "iterRange":
        return f.iterRange(r["s"], r["e"], **kw), S.occ(r["s"], r["e"]), None
    if name == "iterActive":
        return f.iterActive(**kw), S.occ(a0, a1), None
    if name == "iter":
        return iter(f), (S.dense(a0, a1) if U else S.occ()), None
    if name == "iterShape":
        return f.iterShape(), S.dense(0, S.shape), None
    if name == "iterActiveShape":
        return f.iterActiveShape(), S.dense(a0, a1), None
    if name == "iterRangeShape":
        return f.iterRangeShape(r["s"], r["e"], r["step"]), S.dense(r["s"], r["e"], r["step"]), None
    if name == "iterShapeRef":
        w = S.dense(0, S.shape)
    elif name == "iterActiveShapeRef":
        w = S.dense(a0, a1)
    else:
        w = S.dense(r["s"], r["e"], r["step"])
    it = {"iterShapeRef": f.iterShapeRef, "iterActiveShapeRef": f.iterActiveShapeRef,
          "iterRangeShapeRef": lambda: f.iterRangeShapeRef(r["s"], r["e"], r["step"])}[name]()
    return it, w, [c for c, _ in w]


@st.composite
def request(draw, shape):
    op = draw(st.sampled_from(["lazy_range", "iterOccupancy", "iterRange", "iterRange", "iterActive", "iterShape",
                               "iterActiveShape", "iterRangeShape", "iterShapeRef", "iterActiveShapeRef",
                               "iterRangeShapeRef", "iter", "coiter", "coiter", "project", "project", "project",
                               "prune", "lazy", "lazy", "interleaved", "interleaved"]))
    r = {"op": op, "sp": draw(st.one_of(st.none(), st.integers(0, 20)))}
    if op == "interleaved":
        # two traversals of the SAME fiber, one inside the body of the other (a self-join, a convolution)
        r["outer"] = draw(st.sampled_from(TRAVERSALS))
        r["inner"] = draw(st.sampled_from(TRAVERSALS))
        r["isp"] = draw(st.one_of(st.none(), st.integers(0, 20)))
        r["step"] = draw(st.sampled_from([1, 1, 2, 3]))
    lo = draw(st.integers(-1, shape + 1))
    hi = draw(st.integers(lo, shape + 2))
    if op == "iterRange":
        r["s"] = draw(st.one_of(st.none(), st.just(lo)))
        r["e"] = draw(st.one_of(st.none(), st.just(hi)))
    if op == "interleaved":
        r["s"], r["e"] = max(lo, 0), hi
    if op in ("iterRangeShape", "iterRangeShapeRef"):
        r["s"], r["e"] = max(lo, 0), hi
        r["step"] = draw(st.sampled_from([1, 1, 2, 3, -1, -2]))
        if r["step"] < 0:
            r["s"], r["e"] = min(hi, shape - 1), max(lo, 0) - 1       # a descending range
    if op == "lazy_range":
        r["k"] = draw(st.integers(0, 6))
        r["s"] = draw(st.sampled_from([0, 0, 1, -1, None]))
        r["e"] = draw(st.one_of(st.none(), st.integers(-2, 8)))
    if op == "coiter":
        r["kind"] = draw(st.sampled_from(["Shape", "ActiveShape", "RangeShape"]))
        r["ref"] = draw(st.booleans())
        r["s"], r["e"], r["step"] = max(lo, 0), hi, draw(st.sampled_from([1, 1, 2, 3, -1, -2]))
        if r["step"] < 0:
            r["s"], r["e"] = min(hi, shape - 1), max(lo, 0) - 1       # a descending range
        r["n_others"] = draw(st.integers(0, 2))
        r["grow"] = draw(st.sampled_from([0, 0, 1, 3]))      # the other fibers may declare a larger shape
    if op == "project":
        r["m"] = draw(st.sampled_from([1, 1, -1, 2, -2]))
        r["k"] = draw(st.one_of(st.sampled_from([0, 0, 1, -1]), st.integers(-3, 12)))
        if draw(st.booleans()):
            a = draw(st.integers(-16, 24))
            r["interval"] = [a, a + draw(st.integers(0, 12))]
        else:
            r["interval"] = None
        # (an interval that starts at / next to the image of a stored coordinate: where a shortcut is legal or not)
        r["ivrel"] = draw(st.one_of(st.none(), st.tuples(st.integers(0, 7), st.integers(-1, 1), st.integers(0, 12))))
    if op == "prune":
        r["keep"] = draw(st.lists(st.booleans(), min_size=1, max_size=8))
    if op == "lazy":
        r["kind"] = draw(st.sampled_from(["&", "|", "-", "<<", "project", "prune", "^", "union", "intersection", "lf",
                                          "and-project", "project-prune"]))
        r["m"], r["k"] = draw(st.sampled_from([1, 2, -1])), draw(st.integers(0, 5))
        r["keep"] = draw(st.lists(st.booleans(), min_size=1, max_size=8))
    return r


@st.composite
def cases(draw):
    shape = draw(st.integers(1, 8))
    nested = draw(st.sampled_from([False, False, True]))
    default = draw(st.sampled_from([0, 0, 0, 2]))
    f = draw(fiber_desc(shape, nested, default))
    # (format U iterates the active range only and is documented not to work with elements outside it)
    f["active"] = None
    if f["fmt"] != "U" and draw(st.booleans()):
        a0 = draw(st.integers(0, shape))
        f["active"] = [a0, draw(st.integers(a0, shape))]
        if f["active"][0] == f["active"][1] == 0:
            f["active"] = None     # (0, 0) is falsy-free but degenerate: keep the default instead
    elif f["fmt"] == "U" and draw(st.booleans()):
        # an uncompressed rank with a narrowed active range: legal as long as every element lies inside it
        cs = [c for c, _ in f["elems"]]
        a0 = draw(st.integers(0, min(cs) if cs else shape - 1))
        a1 = draw(st.integers((max(cs) if cs else a0) + 1, shape))
        if (a0, a1) != (0, 0):
            f["active"] = [a0, a1]
    others = [draw(fiber_desc(shape, nested, default, allow_u=False)) for _ in range(2)]
    reqs = draw(st.lists(request(shape), min_size=1, max_size=5))
    return {"shape": shape, "nested": nested, "default": default, "fiber": f, "others": others, "requests": reqs}


class Subject:
    """A freshly built fiber plus its model."""

    def __init__(self, desc, shape, nested, default):
        self.desc, self.shape, self.nested, self.default = desc, shape, nested, default
        self.fiber, self.tensor = build_operand(desc, shape, nested, default, 0)
        if desc.get("active"):
            self.fiber.setActive(tuple(desc["active"]))
        self.active = tuple(desc["active"]) if desc.get("active") else (0, shape)
        self.coords = [c for c, _ in desc["elems"]]
        self.nonempty = []
        for c, ch in desc["elems"]:
            self.nonempty.append(bool(model.content_of_tree(ch, 1, default)) if nested else ch != default)
        self.stored = list(self.fiber.payloads)
        self.snap0 = observe.snap(self.fiber)
        self.ranks0 = observe.rank_lists(self.tensor) if self.tensor else None

    def occ(self, s=None, e=None):
        """presented (coord, index) in [s, e)"""
        return [(c, i) for i, c in enumerate(self.coords)
                if self.nonempty[i] and (s is None or c >= s) and (e is None or c < e)]

    def dense(self, s, e, step=1):
        idx = {c: i for i, c in enumerate(self.coords)}
        return [(c, idx.get(c)) for c in range(s, e, step)]

    def check_default(self, p, c, where):
        if any(p is x for x in self.stored):
            raise Violation("default-aliased", f"{where}: default for absent {c} is a stored payload")
        if self.nested:
            if not isinstance(p, Fiber) or len(p.coords) != 0:
                raise Violation("default-value", f"{where}: default for absent {c} is {p!r}, expected empty fiber")
        elif not isinstance(p, Payload) or isinstance(p.value, (Payload, Fiber)) or p.value != self.default:
            raise Violation("default-value", f"{where}: default for absent {c} is {p!r}, expected boxed {self.default}")

    def compare(self, got, want, where, payload_of=lambda p: p):
        if [c for c, _ in got] != [c for c, _ in want]:
            raise Violation("coords", f"{where}: yields {[c for c, _ in got]}, expected {[c for c, _ in want]}; "
                            f"fiber={self.desc}")
        for (c, p), (_, i) in zip(got, want):
            p = payload_of(p)
            if i is None:
                self.check_default(p, c, where)
            elif p is not self.stored[i]:
                raise Violation("payload-identity", f"{where}: payload at {c} is not the stored object")

    def unchanged(self, where):
        if observe.snap(self.fiber) != self.snap0:
            raise Violation("tree-modified", f"{where}: non-reference traversal changed the fiber: "
                            f"{self.snap0} -> {observe.snap(self.fiber)}")
        if self.tensor is not None and observe.rank_lists(self.tensor) != self.ranks0:
            raise Violation("ranks-modified", f"{where}: non-reference traversal changed the rank lists")

    def grown_by(self, visited, where):
        want = sorted(set(self.coords) | set(visited))
        if self.fiber.coords != want:
            raise Violation("ref-insert", f"{where}: after reference traversal coords are {self.fiber.coords}, "
                            f"expected {want}")
        for c, p in zip(self.coords, self.stored):
            if self.fiber.payloads[self.fiber.coords.index(c)] is not p:
                raise Violation("ref-insert", f"{where}: stored payload at {c} was replaced")
        observe.wellformed(self.fiber, where=where)
        if self.tensor is not None:
            observe.rank_consistency(self.tensor, where=where)

    def legal_sp(self, sel, s):
        """map a selector to a legal start_pos for a range starting at s (None = from the beginning)"""
        if sel is None or not self.coords:
            return None
        legal = [p for p in range(len(self.coords))
                 if not any(self.nonempty[i] and (s is None or self.coords[i] >= s) for i in range(p))]
        return legal[sel % len(legal)]


def sem(p, default):
    """content-level value of a payload"""
    if isinstance(p, Fiber):
        return ("F", sorted(observe.content_of(p, 1, default).items()))
    v = Payload.get(p)
    if isinstance(v, tuple):
        return tuple(sem(x, default) if isinstance(x, (Fiber, Payload)) else x for x in v)
    return v


def pyl(it):
    return [(cp.coord, cp.payload) for cp in it]


def check(case, rec):
    shape, nested, default = case["shape"], case["nested"], case["default"]
    desc = case["fiber"]
    interesting = False
    for r in case["requests"]:
        S = Subject(desc, shape, nested, default)
        f = S.fiber
        op = r["op"]
        U = desc["fmt"] == "U"
        a0, a1 = S.active
        if op in ("iterOccupancy", "iterRange", "iterActive"):
            if op == "iterOccupancy":
                s, e = None, None
            elif op == "iterRange":
                s, e = r["s"], r["e"]
            else:
                s, e = a0, a1
            sp = S.legal_sp(r["sp"], s)
            # (a shortcut may be handed over as a plain position or boxed: "scalar or Payload() containing a scalar")
            kw = {} if sp is None else {"start_pos": Payload(sp) if r["sp"] % 3 == 2 else sp}
            if sp is not None and r["sp"] % 3 == 2:
                rec.cls("boxed-start-pos")
            if op == "iterOccupancy":
                got = pyl(f.iterOccupancy(**kw))
            elif op == "iterRange":
                got = pyl(f.iterRange(s, e, **kw))
            else:
                got = pyl(f.iterActive(**kw))
            want = S.occ(s, e)
            S.compare(got, want, f"{op}({s},{e},sp={sp})")
            if sp is not None and want:
                # the position the traversal saved is itself a shortcut for going on behind the last element:
                # wherever exactly it points, using it must not change what is yielded
                sv, nxt = f.getSavedPos(), want[-1][0] + 1
                if isinstance(sv, int) and 0 <= sv < len(f.coords) and \
                        not any(S.nonempty[i] and S.coords[i] >= nxt for i in range(sv)):
                    cont = pyl(f.iterRange(nxt, None, start_pos=sv))
                    S.compare(cont, S.occ(nxt, None), f"iterRange({nxt}, None, start_pos=<saved by {op}: {sv}>)")
                    rec.cls("continued-from-saved-pos")
                rec.cls("shortcut")
                interesting = True
            if want and len(want) < len(S.occ()):
                interesting = True
            S.unchanged(op)
        elif op in ("iterShape", "iterActiveShape", "iterRangeShape"):
            if op == "iterShape":
                got, want = pyl(f.iterShape()), S.dense(0, shape)
            elif op == "iterActiveShape":
                got, want = pyl(f.iterActiveShape()), S.dense(a0, a1)
            else:
                got = pyl(f.iterRangeShape(r["s"], r["e"], r["step"]))
                want = S.dense(r["s"], r["e"], r["step"])
            S.compare(got, want, op)
            S.unchanged(op)
        elif op in ("iterShapeRef", "iterActiveShapeRef", "iterRangeShapeRef"):
            if op == "iterShapeRef":
                it, want = f.iterShapeRef(), S.dense(0, shape)
            elif op == "iterActiveShapeRef":
                it, want = f.iterActiveShapeRef(), S.dense(a0, a1)
            else:
                it, want = f.iterRangeShapeRef(r["s"], r["e"], r["step"]), S.dense(r["s"], r["e"], r["step"])
            got = pyl(it)
            if [c for c, _ in got] != [c for c, _ in want]:
                raise Violation("coords", f"{op}: yields {[c for c, _ in got]}, expected {[c for c, _ in want]}")
            S.grown_by([c for c, _ in want], op)
            for (c, p), (_, i) in zip(got, want):
                if p is not f.payloads[f.coords.index(c)]:
                    raise Violation("ref-identity", f"{op}: reference at {c} is not the stored payload")
                if i is None:
                    if nested:
                        if not isinstance(p, Fiber) or len(p.coords):
                            raise Violation("default-value", f"{op}: created payload at {c} is {p!r}")
                    elif Payload.get(p) != default:
                        raise Violation("default-value", f"{op}: created payload at {c} is {p!r}")
            rec.cls("ref-form")
        elif op == "interleaved":
            outer, inner = r["outer"], r["inner"]
            oref, iref = outer.endswith("Ref"), inner.endswith("Ref")
            if iref and not oref:
                # an inner walk that inserts while the outer one walks the stored elements is a mutation during
                # iteration: only a reference-creating outer walk (which looks every coordinate up) is asked to bear it
                inner, iref = inner[:-3], False
            # (shortcuts: any legal one while nothing is inserted; position 0 -- always legal -- otherwise)
            rng_s = {"iterRange": r["s"], "iterActive": a0}
            osp = S.legal_sp(r["sp"], rng_s.get(outer)) if not oref and outer in ("iterOccupancy", "iterRange", "iterActive") else None
            isp = None
            if inner in ("iterOccupancy", "iterRange", "iterActive") and r["isp"] is not None and S.coords:
                isp = 0 if oref else S.legal_sp(r["isp"], rng_s.get(inner))
            it, want, visited = traversal(S, outer, r, osp, U)
            got, inner_runs, ivisited = [], 0, []
            for cp in it:
                got.append((cp.coord, cp.payload))
                if inner_runs < 4:
                    iit, iwant, iv = traversal(S, inner, r, isp, U)
                    S.compare(pyl(iit), iwant, f"{inner}(sp={isp}) inside the body of {outer}(sp={osp}), run {inner_runs}")
                    ivisited = iv or []
                    inner_runs += 1
            S.compare(got, want, f"{outer}(sp={osp}) with {inner}(sp={isp}) run in its body")
            if oref or iref:
                S.grown_by((visited or []) + (ivisited if inner_runs else []), f"{outer} with {inner} in its body")
                for c, p in got:
                    if p is not f.payloads[f.coords.index(c)]:
                        raise Violation("ref-identity", f"{outer} with {inner} in its body: reference at {c} is not the "
                                        f"stored payload")
            else:
                S.unchanged(f"{outer} with {inner} in its body")
            rec.cls("interleaved-ref", oref or iref)
            rec.cls("interleaved-shortcut", osp is not None or isp is not None)
            if inner_runs and (osp is not None or isp is not None or oref):
                interesting = True
        elif op == "iter":
            got = pyl(f)
            want = S.dense(a0, a1) if U else S.occ()
            S.compare(got, want, f"__iter__ (format {desc['fmt']})")
            S.unchanged("__iter__")
        elif op == "coiter":
            others = [Subject(d, shape + r.get("grow", 0), nested, default) for d in case["others"][:r["n_others"]]]
            rec.cls("coiter-shapes-differ", bool(others) and r.get("grow", 0) > 0)
            subs = [S] + others
            fibs = [x.fiber for x in subs]
            kind, ref = r["kind"], r["ref"]
            if kind == "Shape":
                rng = (0, shape, 1)
                lazy = Fiber.coiterShapeRef(fibs) if ref else Fiber.coiterShape(fibs)
            elif kind == "ActiveShape":
                rng = (a0, a1, 1)
                lazy = Fiber.coiterActiveShapeRef(fibs) if ref else Fiber.coiterActiveShape(fibs)
            else:
                rng = (r["s"], r["e"], r["step"])
                lazy = (Fiber.coiterRangeShapeRef if ref else Fiber.coiterRangeShape)(fibs, *rng)
            got = pyl(lazy)
            cs = list(range(*rng))
            if [c for c, _ in got] != cs:
                raise Violation("coords", f"coiter{kind}{'Ref' if ref else ''}: yields {[c for c, _ in got]}, expected {cs}")
            for c, p in got:
                ps = Payload.get(p)
                if not isinstance(ps, tuple) or len(ps) != len(subs):
                    raise Violation("payload-shape", f"coiter: payload {p!r} is not a {len(subs)}-tuple")
            for j, x in enumerate(subs):
                want = x.dense(*rng)
                if ref:
                    x.grown_by(cs, f"coiter{kind}Ref[{j}]")
                    for (c, p) in got:
                        if Payload.get(p)[j] is not x.fiber.payloads[x.fiber.coords.index(c)]:
                            raise Violation("ref-identity", f"coiter{kind}Ref[{j}]: reference at {c} is not stored")
                else:
                    x.compare(got, want, f"coiter{kind}[{j}]", payload_of=lambda p, j=j: Payload.get(p)[j])
                    x.unchanged(f"coiter{kind}[{j}]")
            rec.cls("coiter")
        elif op == "project":
            m, k, iv = r["m"], r["k"], r["interval"]
            trans = lambda c, m=m, k=k: m * c + k
            if iv is not None and r.get("ivrel") and S.coords:
                j, delta, length = r["ivrel"]
                lo = trans(S.coords[j % len(S.coords)]) + delta
                iv = [lo, lo + length]
                rec.cls("interval-at-a-coordinate")
            pres = S.occ()
            img = [(trans(c), i) for c, i in pres]
            if m < 0:
                img.reverse()
            if iv is not None:
                want = [(c, i) for c, i in img if iv[0] <= c < iv[1]]
            else:
                want = img
            kw = {}
            sp = None
            if m > 0 and iv is not None and S.coords and r["sp"] is not None:
                legal = [p for p in range(len(S.coords))
                         if p == 0 or (S.coords[p - 1] < iv[0]          # the library's own assertion
                                       and not any(S.nonempty[i] and trans(S.coords[i]) >= iv[0] for i in range(p)))]
                # (the furthest legal shortcut is the one next to the boundary: take it every other time)
                sp = legal[-1] if r["sp"] % 2 else legal[(r["sp"] // 2) % len(legal)]
                kw["start_pos"] = sp
            lazy = f.project(trans_fn=trans, interval=tuple(iv) if iv else None, **kw)
            for rep in range(2):
                got = iterate(lazy, "project")
                S.compare(got, want, f"project(m={m},k={k},interval={iv},sp={sp})")
            S.unchanged("project")
            rec.cls("project-reversing", m < 0)
            rec.cls("project-interval", iv is not None)
            if m < 0 and iv is not None and want:
                interesting = True
        elif op == "lazy_range":
            # a range over a lazily projected fiber, which may hold negative coordinates
            k = r["k"]
            lazy = f.project(trans_fn=lambda c, k=k: c - k)
            pres = [(c - k, i) for c, i in S.occ()]
            want = [(c, i) for c, i in pres if (r["s"] is None or c >= r["s"]) and (r["e"] is None or c < r["e"])]
            for rep in range(2):
                S.compare(pyl(lazy.iterRange(r["s"], r["e"])), want, f"project(c-{k}).iterRange({r['s']},{r['e']})")
            S.unchanged("lazy_range")
            rec.cls("negative-coordinates", any(c < 0 for c, _ in pres))
        elif op == "prune":
            keep = r["keep"]
            pres = S.occ()
            # the keep decision depends on the coordinate only (what "position" means for a fiber with
            # explicit defaults or an uncompressed format is not part of the property)
            want = [x for x in pres if keep[x[0] % len(keep)]]
            psp = S.legal_sp(r["sp"], None)
            pkw = {} if psp is None else {"start_pos": Payload(psp) if r["sp"] % 2 else psp}
            lazy = f.prune(trans_fn=lambda i, c, p: keep[c % len(keep)], **pkw)
            for rep in range(2):
                S.compare(iterate(lazy, "prune"), want, "prune")
            S.unchanged("prune")
        elif op == "lazy":
            kind = r["kind"]
            other = Subject(case["others"][0], shape, nested, default)
            if kind in ("&", "|", "-", "^", "union", "intersection", "lf", "and-project"):
                o2 = Subject(case["others"][1], shape, nested, default)
                mk = {"&": lambda: f & other.fiber, "|": lambda: f | other.fiber, "-": lambda: f - other.fiber,
                      "^": lambda: f ^ other.fiber,
                      "union": lambda: Fiber.union(f, other.fiber, o2.fiber),
                      "intersection": lambda: Fiber.intersection(f, other.fiber, o2.fiber),
                      "lf": lambda: Fiber.intersection(f, other.fiber, style="leader-follower"),
                      # a lazy fiber made from a lazy fiber
                      "and-project": lambda: (f & other.fiber).project(trans_fn=lambda c: c + r["k"])}[kind]
            elif kind == "<<":
                z = Subject(case["others"][1], shape, nested, default)
                if z.desc["fmt"] != "C":
                    continue
                mk = lambda: z.fiber << f
            elif kind == "project":
                mk = lambda: f.project(trans_fn=lambda c: r["m"] * c + r["k"])
            elif kind == "project-prune":
                mk = lambda: f.project(trans_fn=lambda c: c + r["k"]).prune(
                    trans_fn=lambda i, c, p: r["keep"][c % len(r["keep"])])
            else:
                mk = lambda: f.prune(trans_fn=lambda i, c, p: r["keep"][c % len(r["keep"])])
            lazy = mk()
            one = [(c, observe.snap(p)) for c, p in iterate(lazy, f"lazy {kind}")]
            if kind == "<<":
                # a populate whose body writes nothing removes what it created: z is as before
                # (an explicit default of z at an offered coordinate may be dropped: content is what counts)
                d_ = 2 if nested else 1
                if observe.content_of(z.fiber, d_, default) != model.content_of_tree(z.desc["elems"], d_, default):
                    raise Violation("populate-noop", "z << a iterated with an empty body changed z's content")
            two = [(c, observe.snap(p)) for c, p in iterate(lazy, f"lazy {kind} (2nd)")]
            if one != two:
                raise Violation("lazy-reiterate", f"lazy {kind}: second iteration differs: {one} vs {two}")
            if kind != "<<":     # fromLazy documents that it does not support populate results
                eager = Fiber.fromLazy(mk())
                # "materialise to equal eager fibers": equal in content (assignment drops explicit defaults)
                gotm = [(c, sem(p, default)) for c, p in zip(eager.coords, eager.payloads)]
                wantm = [(c, sem(p, default)) for c, p in iterate(mk(), f"lazy {kind}")]
                if gotm != wantm:
                    raise Violation("fromLazy", f"fromLazy({kind}) stores {gotm}, lazy iteration gave {wantm}")
                if eager.isLazy():
                    raise Violation("fromLazy", "fromLazy returned a lazy fiber")
                # ... also a lazy fiber that has been walked before materialises completely
                eager2 = Fiber.fromLazy(lazy)
                gotm2 = [(c, sem(p, default)) for c, p in zip(eager2.coords, eager2.payloads)]
                if gotm2 != wantm:
                    raise Violation("fromLazy", f"fromLazy({kind}) of a lazy fiber that was iterated before stores {gotm2}, "
                                    f"lazy iteration gave {wantm}")
                if kind in ("project", "prune"):
                    # the eager fiber is a fiber of its own: updating it in place leaves the lazy fiber (and the
                    # fiber it was made from) as they were -- "iterated repeatedly with identical results"
                    for p in eager.payloads:
                        for q in (p.payloads if isinstance(p, Fiber) else [p]):
                            q += 1
                    three = [(c, observe.snap(p)) for c, p in iterate(lazy, f"lazy {kind} (3rd)")]
                    if three != one:
                        raise Violation("lazy-reiterate", f"lazy {kind}: after updating the materialised copy in place the "
                                        f"lazy fiber yields {three}, before {one}")
            if kind != "<<":
                S.unchanged(f"lazy {kind}")
            rec.cls("lazy")
            if one:
                interesting = True
        rec.cls(op)
    noisy = any(not x for x in Subject(desc, shape, nested, default).nonempty)
    rec.cls("noisy", noisy)
    rec.cls("format-U", desc["fmt"] == "U")
    rec.cls("nested", nested)
    rec.cls("active-range", desc.get("active") is not None)
    nvals = sum(1 for x in Subject(desc, shape, nested, default).nonempty if x)
    rec.nontrivial(noisy and nvals >= 2 and interesting)


PARTS = [Part("traverse", cases(), check, n_quick=4000, n_thorough=12000)]


def _pin_p9a():
    f = Fiber([1], [0], shape=4)
    try:
        got = [c for c, _ in f.project(trans_fn=lambda c: c + 1)]
    except StopIteration:
        return "project() on Fiber([1],[0]) (only an explicit default) raises StopIteration"
    return None if got == [] else f"project() on an all-default fiber yields {got}"


PINNED = {"P9a-project-all-default-stopiteration": _pin_p9a}


def _pin_p34():
    f = Fiber([4], [0], shape=8, default=2)
    got = [c for c, _ in f.project(trans_fn=lambda c: -c)]
    return None if got == [-4] else f"Fiber([4],[0],default=2).project(c -> -c) yields {got}, expected [-4]"


PINNED["P34-reversed-project-drops-zero-with-nonzero-default"] = _pin_p34
