"""C09 -- rank transforms move every point to its image and nothing else."""

import copy
import itertools

from hypothesis import strategies as st

from fibertree import Fiber, Payload, Tensor

from .. import build, gen, model, observe, findings
from ..core import Part, Violation

ID = "C09"
RULE = ("Tensors of depth 2-4 (explicit defaults, empty sub-fibers, the empty tensor; every construction route; "
        "authoritative or estimated shape) and one transform: swizzleRanks(any permutation), swapRanks(depth), "
        "flattenRanks(depth, levels, style tuple / pair / linear), mergeRanks(absolute / relative, merge_fn sum / max / "
        "first), flatten followed by unflatten, splitUniform followed by an absolute flatten, each optionally followed "
        "by its inverse. Oracle: content(result) equals the image of the original's content under the stated "
        "coordinate map (permuted points; combined coordinate per style, linear with the authoritative lower shape; "
        "colliding points reduced with the merge function in ascending original order); the inverse composition "
        "restores content and rank ids and compares == to the original; every result is well-formed and its rank "
        "lists mirror the tree; the operand is unchanged. Non-trivial: >=3 non-default points spread over >=2 fibers "
        "at the transformed depth and an explicit default or empty sub-fiber in the operand. Distinct = SHA-1 of case.")
ASSUMPTIONS = ["linear flattening needs an authoritative lower shape (asserted by the library)"]


@st.composite
def cases(draw):
    # (Hypothesis often extends a random prefix with minimal choices, so the small discriminating
    # choices are drawn first and the bulky tree last)
    d = draw(st.sampled_from([2, 2, 3, 3, 4]))
    kind = draw(st.sampled_from(["swizzle", "swizzle", "swap", "flatten", "flatten", "merge", "merge",
                                 "flatten_unflatten", "split_flatten", "flatten_swap", "flatten_flatten"]))
    depth = draw(st.integers(0, d - 2))
    c = {"how": draw(st.sampled_from(["ref", "fiber", "uncompressed", "yaml", "deepcopy"])),
         "kind": kind, "depth": depth, "inverse": draw(st.booleans()),
         "perm": list(draw(st.permutations(list(range(d))))),
         "levels": min(draw(st.sampled_from([1, 2, 3, 1, 2])), d - 1 - depth),
         "style": draw(st.sampled_from(["tuple", "pair", "linear"])),
         "mstyle": draw(st.sampled_from(["absolute", "relative"])),
         "mfn": draw(st.sampled_from(["sum", "sum", "max", "first", "count", "spread"])),
         "step": draw(st.integers(1, 5)),
         "fmts": [draw(st.sampled_from(["C", "C", "C", "U"])) for _ in range(4)]}
    if kind == "split_flatten":
        c["depth"] = draw(st.integers(0, d - 1))
    shape = [draw(st.integers(1, 4)) for _ in range(d)]
    if draw(st.booleans()):
        shape = [max(2, x) for x in shape]
    if draw(st.integers(0, 3)) == 0:
        # one long rank: multi-digit coordinates (10 sorts before 9 as text, not as a number)
        shape[draw(st.integers(0, d - 1))] = draw(st.sampled_from([11, 12, 13]))
    which = draw(st.integers(0, 5))
    if which == 0:
        c["spec"] = draw(gen.tree_specs(shape=shape, defaults=(0, 0, 0, 2), max_elems=3, auth="any"))
    elif which == 1:
        c["spec"] = draw(gen.content_specs(shape, defaults=(0, 0, 0, 2), max_points=8, auth="any"))
    elif which == 2:
        c["spec"] = draw(gen.content_specs(shape, defaults=(2, 0), max_points=6, auth="any", min_points=1,
                                           p_noise=0.9))
    else:
        c["spec"] = draw(gen.content_specs(shape, defaults=(0, 0, 0, 2), max_points=10, auth="any", min_points=3,
                                           p_noise=0.9))
    return c


# count / spread see ALL colliding payloads at once: folding them in pairwise gives another answer
MFN = {"sum": None, "max": lambda ps: max(ps), "first": lambda ps: ps[0],
       "count": lambda ps: len(ps), "spread": lambda ps: (max(ps) - min(ps)) * len(ps) + len(ps)}


def flat_coord(cs, style, shapes):
    """combine coordinates cs (upper..lower) of ranks with the given shapes"""
    if style == "tuple":
        return tuple(cs)
    if style == "pair":
        out = cs[-1]
        for c in reversed(cs[:-1]):
            out = (c, out)
        return out
    if style == "linear":
        out = 0
        for c, s in zip(cs, shapes):
            out = out * s + c
        return out
    if style == "absolute":
        return cs[-1]
    if style == "relative":
        return sum(cs)
    raise ValueError(style)


def image_flatten(cont, depth, levels, style, shape):
    out = {}
    for p, v in sorted(cont.items()):
        q = p[:depth] + (flat_coord(list(p[depth:depth + levels + 1]), style, shape[depth:depth + levels + 1]),) \
            + p[depth + levels + 1:]
        out.setdefault(q, []).append(v)
    return out


def reduce_merge(groups, fn, default):
    out = {}
    for q, vs in groups.items():
        if len(vs) == 1:
            v = vs[0]
        elif fn == "sum":
            v = sum(vs)
        elif fn == "max":
            v = max(vs)
        elif fn == "count":
            v = len(vs)
        elif fn == "spread":
            v = (max(vs) - min(vs)) * len(vs) + len(vs)
        else:
            v = vs[0]
        if v != default:
            out[q] = v
    return out


def verify(t, where, depth=None):
    observe.wellformed(t.getRoot(), len(t.ranks), where)
    observe.rank_consistency(t, where)


def check(case, rec):
    spec = case["spec"]
    d, default, shape = model.depth(spec), spec["default"], spec["shape"]
    auth = spec.get("auth", True)
    t = build.build_tensor(spec, case["how"])
    ids = list(spec["rank_ids"])
    # rank formats are configuration: a rank declared uncompressed is walked densely by default iteration, which
    # must not change what a transform does with the stored content
    for i, fm in enumerate(case.get("fmts", [])[:d]):
        if fm == "U":
            t.setFormat(ids[i], "U")
    cont = model.content(spec)
    snap0, ranks0 = observe.snap(t.getRoot()), observe.rank_lists(t)
    kind, depth = case["kind"], case["depth"]

    def operand_intact(where):
        if observe.snap(t.getRoot()) != snap0 or observe.rank_lists(t) != ranks0:
            raise Violation("operand-modified", f"{where} changed its operand")

    def same_as_original(back, where):
        got = observe.tensor_content(back)
        if got != cont:
            raise Violation("inverse-content", f"{where}: content {got}, original {cont}")
        if back.getRankIds() != ids:
            raise Violation("inverse-rank-ids", f"{where}: rank ids {back.getRankIds()}, original {ids}")
        if not (back == t) or not (t == back):
            raise Violation("inverse-eq", f"{where}: result does not compare == to the original")
        verify(back, where)

    if kind == "swizzle":
        perm = case["perm"]
        new_ids = [ids[g] for g in perm]
        r = t.swizzleRanks(new_ids)
        operand_intact("swizzleRanks")
        verify(r, "swizzleRanks result")
        want = {tuple(p[g] for g in perm): v for p, v in cont.items()}
        got = observe.tensor_content(r)
        if got != want or r.getRankIds() != new_ids:
            raise Violation("swizzle", f"swizzleRanks({new_ids}) of {cont} gives {got} with ids {r.getRankIds()}, "
                            f"expected {want}")
        if case["inverse"]:
            same_as_original(r.swizzleRanks(ids), "swizzle and back")
        rec.cls("identity-perm", perm == sorted(perm))
        tdepth = min(i for i in range(d) if perm[i] != i) if perm != sorted(perm) else 0
    elif kind == "swap":
        r = t.swapRanks(depth=depth)
        operand_intact("swapRanks")
        verify(r, "swapRanks result")
        want = {p[:depth] + (p[depth + 1], p[depth]) + p[depth + 2:]: v for p, v in cont.items()}
        got = observe.tensor_content(r)
        exp_ids = ids[:depth] + [ids[depth + 1], ids[depth]] + ids[depth + 2:]
        if got != want or r.getRankIds() != exp_ids:
            raise Violation("swap", f"swapRanks(depth={depth}) of {cont} gives {got} / {r.getRankIds()}, expected {want}")
        if case["inverse"]:
            same_as_original(r.swapRanks(depth=depth), "swap twice")
        tdepth = depth
    elif kind in ("flatten", "flatten_unflatten"):
        levels, style = case["levels"], case["style"]
        if kind == "flatten_unflatten" and style == "linear":
            style = "tuple"
        if style == "linear" and not auth:
            style = "pair"
        r = t.flattenRanks(depth=depth, levels=levels, coord_style=style)
        operand_intact("flattenRanks")
        verify(r, "flattenRanks result")
        groups = image_flatten(cont, depth, levels, style, shape)
        want = {q: vs[0] for q, vs in groups.items()}
        got = observe.tensor_content(r)
        if got != want:
            raise Violation("flatten", f"flattenRanks(depth={depth}, levels={levels}, {style}) of {cont} gives {got}, "
                            f"expected {want}")
        if depth >= 1 and case["step"] % 2 == 0:
            # the fiber-level entry point for "below the top": the same flatten applied to every fiber found at
            # depth-1 of (a copy of) the root
            root2 = copy.deepcopy(t).getRoot()
            res = root2.flattenRanksBelow(depth=depth - 1, levels=levels, style=style)
            fb = res if isinstance(res, Fiber) else root2
            gotb = observe.content_of(fb, d - levels, default)
            if gotb != want:
                raise Violation("flatten-below", f"flattenRanksBelow(depth={depth - 1}, levels={levels}, {style}) of {cont} "
                                f"gives {gotb}, expected {want}")
            rec.cls("flatten-through-Below-form")
        if kind == "flatten_unflatten" or (case["inverse"] and style != "linear"):
            rsnap = observe.snap(r.getRoot())
            back = r.unflattenRanks(depth=depth, levels=levels)
            if observe.snap(r.getRoot()) != rsnap:
                raise Violation("operand-modified", "unflattenRanks changed its operand")
            verify(back, "unflattenRanks result")
            gotb = observe.tensor_content(back) if default == 0 else \
                observe.content_of(back.getRoot(), d, default)
            if gotb != cont:
                raise Violation("unflatten", f"flatten({style}, levels={levels}) then unflatten of {cont} gives {gotb}")
            if back.getRankIds() != ids:
                raise Violation("inverse-rank-ids", f"unflatten: rank ids {back.getRankIds()}, original {ids}")
            rec.cls("unflatten")
        rec.cls("style-" + style)
        rec.cls("multi-level", levels > 1)
        tdepth = depth
    elif kind == "merge":
        levels, style, fn = case["levels"], case["mstyle"], case["mfn"]
        if fn in ("count", "spread"):
            levels = 1          # (a multi-level merge is hierarchical: only one level hands over all colliders at once)
        r = t.mergeRanks(depth=depth, levels=levels, coord_style=style, merge_fn=MFN[fn])
        operand_intact("mergeRanks")
        verify(r, "mergeRanks result")
        groups = image_flatten(cont, depth, levels, style, shape)
        want = reduce_merge(groups, fn, default)
        got = observe.tensor_content(r)
        if got != want:
            raise Violation("merge", f"mergeRanks(depth={depth}, {style}, {fn}) of {cont} gives {got}, expected {want}")
        rec.cls("collision", any(len(v) > 1 for v in groups.values()))
        rec.cls("collision-3way", any(len(v) > 2 for v in groups.values()))
        rec.cls("merge-fn-" + fn)
        rec.cls("merge-" + style)
        tdepth = depth
    elif kind == "flatten_flatten":
        # flattening a rank that already has tuple coordinates (a tensor flattened before)
        if d < 3:
            return
        fd = depth % (d - 2)
        style = "pair" if case["style"] == "pair" else "tuple"
        f1 = t.flattenRanks(depth=fd, levels=1, coord_style=style)
        operand_intact("flattenRanks")
        snap1 = observe.snap(f1.getRoot())
        r = f1.flattenRanks(depth=fd, levels=1, coord_style=style)
        if observe.snap(f1.getRoot()) != snap1:
            raise Violation("operand-modified", "the second flattenRanks changed its (flattened) operand")
        verify(r, "flattenRanks of a flattened tensor")
        want = {}
        for p, v in cont.items():
            a, b, c = p[fd:fd + 3]
            want[p[:fd] + (((a, b, c) if style == "tuple" else ((a, b), c)),) + p[fd + 3:]] = v
        got = observe.tensor_content(r)
        if got != want:
            raise Violation("flatten-flattened", f"flatten(depth={fd}, {style}) twice of {cont} gives {got}, expected {want}")
        if style == "tuple":
            # the same tensor as one two-level flatten, so one two-level unflatten restores the original
            back = r.unflattenRanks(depth=fd, levels=2)
        else:
            back = r.unflattenRanks(depth=fd, levels=1).unflattenRanks(depth=fd, levels=1)
        verify(back, "unflatten of a twice flattened tensor")
        gotb = observe.tensor_content(back) if default == 0 else observe.content_of(back.getRoot(), d, default)
        # (how the ids of a rank flattened twice in pair style nest is not specified; the content decides there)
        if gotb != cont or (style == "tuple" and back.getRankIds() != ids):
            raise Violation("unflatten", f"flatten({style}) twice then unflatten of {cont} gives {gotb} / "
                            f"{back.getRankIds()}")
        rec.cls("style-" + style)
        tdepth = fd
    elif kind == "flatten_swap":
        # swapping ranks of which one already has tuple coordinates (a flattened rank)
        if d < 3:
            return
        fd = depth % (d - 1)
        style = "pair" if case["style"] == "pair" else "tuple"
        f = t.flattenRanks(depth=fd, levels=1, coord_style=style)
        operand_intact("flattenRanks")
        fcont = {q: vs[0] for q, vs in image_flatten(cont, fd, 1, style, shape).items()}
        fids = f.getRankIds()
        sd = case["step"] % (d - 2)
        fsnap = observe.snap(f.getRoot())
        r = f.swapRanks(depth=sd)
        if observe.snap(f.getRoot()) != fsnap:
            raise Violation("operand-modified", "swapRanks changed its (flattened) operand")
        verify(r, "swapRanks of a flattened tensor")
        want = {p[:sd] + (p[sd + 1], p[sd]) + p[sd + 2:]: v for p, v in fcont.items()}
        got = observe.tensor_content(r)
        exp_ids = fids[:sd] + [fids[sd + 1], fids[sd]] + fids[sd + 2:]
        if got != want or r.getRankIds() != exp_ids:
            raise Violation("swap-tuple", f"flatten(depth={fd}, {style}) then swapRanks(depth={sd}) of {cont} gives {got} / "
                            f"{r.getRankIds()}, expected {want} / {exp_ids}")
        if case["inverse"]:
            back = r.swapRanks(depth=sd)
            if observe.tensor_content(back) != fcont or back.getRankIds() != fids:
                raise Violation("inverse-content", "swapping the ranks of a flattened tensor twice does not restore it")
        rec.cls("tuple-rank-in-swap", fd in (sd, sd + 1))
        tdepth = sd
    elif kind == "split_flatten":
        step = case["step"]
        s = t.splitUniform(step, depth=depth)
        verify(s, "split result")
        r = s.flattenRanks(depth=depth, levels=1, coord_style="absolute")
        operand_intact("split + absolute flatten")
        verify(r, "absolute flatten of a split")
        got = observe.tensor_content(r)
        if got != cont:
            raise Violation("split-flatten", f"splitUniform({step}, depth={depth}) then flatten(absolute) of {cont} "
                            f"gives {got}")
        tdepth = depth
    else:
        raise ValueError(kind)

    # classification
    fibers_at = {p[:tdepth] for p in cont}
    noisy = model.has_explicit_default(spec["tree"], d, default) or model.has_empty_subfiber(spec["tree"], d)
    rec.cls(kind)
    rec.cls("noisy", noisy)
    rec.cls("estimated-shape", not auth)
    rec.cls("empty-tensor", not cont)
    rec.cls("has-U-rank", "U" in case.get("fmts", [])[:d])
    rec.cls("multi-digit-coordinates", any(c >= 10 for p in cont for c in p) and any(c < 10 for p in cont for c in p))
    rec.cls(f"depth{d}")
    rec.cls("transform-below-top", tdepth > 0)
    rec.nontrivial(len(cont) >= 3 and len(fibers_at) >= 2 and noisy)


PARTS = [Part("transform", cases(), check, n_quick=5000, n_thorough=30000)]


def coverage_warnings(rec):
    n = max(1, rec.evaluations)
    out = []
    if rec.classes.get("transform:noisy", 0) / n < 0.2:
        out.append(f"noisy operands only {rec.classes.get('transform:noisy', 0)}/{n}")
    return out


def _pin_p21():
    t = Tensor(rank_ids=["M", "K"])            # estimated shape, empty
    f = t.flattenRanks()
    try:
        f.unflattenRanks()
    except TypeError as e:
        return f"flatten then unflatten of an empty tensor with estimated shape raises TypeError: {e}"
    return None


def _pin_p22():
    t = Tensor(rank_ids=["M", "K", "N"], shape=[2, 1, 2], default=2)
    for p, v in {(0, 0, 0): 1, (0, 0, 1): 1, (1, 0, 0): 1}.items():
        t.getPayloadRef(*p).__ilshift__(v)
    m = t.mergeRanks(depth=0, levels=1, coord_style="absolute")
    got = observe.tensor_content(m)
    if got.get((0, 1)) != 1:
        return f"mergeRanks(absolute) with leaf default 2: the non-colliding point (0,0,1)=1 became {got.get((0, 1))}"
    return None


def _pin_p35():
    leaf = Fiber([0], [0])
    k = Fiber([0, 1], [Fiber([0], [leaf]), Fiber([], [])])     # an empty sub-fiber last
    t = Tensor.fromFiber(["M", "K", "N", "P"], Fiber([0], [k]), shape=[1, 2, 1, 1], default=2)
    got = observe.tensor_content(t.flattenRanks(depth=0, levels=3, coord_style="tuple"))
    if got != {((0, 0, 0, 0),): 0}:
        return f"flattenRanks(levels=3) of {{(0,0,0,0): 0}} with leaf default 2 and an empty K fiber gives {got}"
    return None


def _pin_p38():
    t = Tensor(rank_ids=["M", "K", "N"], shape=[2, 2, 2], default=2)
    for p, v in {(0, 0, 0): 1, (0, 1, 0): 1, (1, 0, 0): 0}.items():
        t.getPayloadRef(*p).__ilshift__(v)
    got = observe.tensor_content(t.mergeRanks(depth=0, levels=2, coord_style="absolute"))
    return None if got == {} else (f"mergeRanks(levels=2, absolute, sum) of 1 + 1 + 0 under default 2 gives {got}: the partial "
                                   f"sum 2 (= the default) was dropped")


def _pin_p42():
    t = Tensor(rank_ids=["M", "K", "N", "P"], shape=[3, 2, 2, 1], default=2)
    for p, v in {(1, 0, 1, 0): -2, (1, 1, 0, 0): 4, (2, 0, 0, 0): 0}.items():
        t.getPayloadRef(*p).__ilshift__(v)
    got = observe.tensor_content(t.mergeRanks(depth=0, levels=2, coord_style="relative"))
    return None if got == {} else (f"mergeRanks(depth=0, levels=2, relative, sum) of -2 + 4 + 0 above a rank P under default 2 "
                                   f"gives {got}: the partial sum 2 (= the default) inside a merged sub-fiber was dropped")


def _pin_p39():
    t = Tensor(rank_ids=["M", "K", "N"], shape=[2, 1, 2])
    for p, v in {(0, 0, 1): -1, (1, 0, 0): 1}.items():
        t.getPayloadRef(*p).__ilshift__(v)
    for r in ("K", "N"):
        t.setFormat(r, "U")
    got = observe.tensor_content(t.mergeRanks(depth=0, levels=1, coord_style="absolute", merge_fn=lambda ps: max(ps)))
    want = {(0, 1): -1, (0, 0): 1}
    return None if got == want else f"mergeRanks(absolute, max) with ranks K, N declared uncompressed gives {got}, expected {want}"


def _pin_p41():
    t = Tensor(rank_ids=["M", "K", "N", "P"], shape=[2, 2, 2, 2], default=2)
    for p, v in {(0, 0, 0, 0): 0, (0, 0, 0, 1): 0, (0, 1, 0, 0): 0, (1, 0, 0, 0): 0}.items():
        t.getPayloadRef(*p).__ilshift__(v)
    got = observe.tensor_content(t.mergeRanks(depth=0, levels=2, coord_style="absolute"))
    want = {(0, 0): 0, (0, 1): 0}
    return None if got == want else (f"mergeRanks(levels=2, absolute) of four stored zeros under default 2 gives {got}, "
                                     f"expected {want}")


PINNED = {"P41-merged-subfiber-loses-default": _pin_p41, "P39-merge-pads-uncompressed-ranks": _pin_p39, "P21-unflatten-estimated-shape": _pin_p21, "P22-merge-pads-with-default": _pin_p22,
          "P35-flatten-default-from-empty-lower": _pin_p35, "P38-multilevel-merge-drops-default-valued-partial": _pin_p38,
          "P42-merged-subfiber-drops-default-valued-partial": _pin_p42}
