"""C13 -- conversions between representations are lossless.

Parts
-----
nest    fromUncompressed (Tensor and Fiber) of a generated rectangular nest,
        uncompress() / uncompress(shape), dictionary form, YAML files
yaml    tensors obtained from such a nest by a drawn chain of transforms
        (swizzle, flatten -> tuple / pair / linear coordinates, splits):
        YAML dump -> load, Fiber.dump -> Fiber.fromYAMLfile, dict2fiber(fiber2dict)
rank0   rank-0 tensors (finite sub-domain, enumerated)
random  Fiber.fromRandom / Tensor.fromRandom
"""

import contextlib
import io
import itertools
import json
import os
import random
import shutil
import tempfile
import traceback

from hypothesis import strategies as st

from fibertree import Fiber, Payload, Tensor

from .. import findings, gen, model, observe
from ..core import Part, Violation

ID = "C13"
RULE = ("nest/yaml: a rectangular nest of depth 1-4 (dims 1-6, ints / dyadic floats, leaf default in "
        "{0, 3, -1, 0.5}, fill mode all-default / one entry / sparse / half / dense / full; 0 is a legal "
        "non-default value when the default is not 0) is turned into a Tensor and a Fiber by fromUncompressed. "
        "Oracle written from the nest alone: stored content == the nest's non-default entries, shape == the "
        "nest's dimensions, no explicit default and no empty sub-fiber stored, uncompress() and "
        "uncompress(dims) return the nest with unboxed leaves of the same type; dict2fiber(fiber2dict(f)), "
        "Fiber.dump -> Fiber.fromYAMLfile and Tensor.dump -> Tensor.fromYAMLfile give an object whose raw "
        "content (read from .coords/.payloads) equals the dumped one's, that the library's == calls equal, and "
        "(tensor) with the same rank ids, shape and name.  yaml: the same after a drawn chain of swizzleRanks / "
        "flattenRanks(tuple|pair|linear) / splitUniform / splitEqual (so coordinates may be tuples, rank ids "
        "lists, shapes tuples).  rank0: every (value, name, constructor) combination of a small table.  "
        "random: fromRandom(shape depth 1-3, density scalar or list of dyadic values, interval 1-10, seed, "
        "default) called twice with the same seed from two different global random states gives identical "
        "trees; all coordinates inside the shape; stored values within [1, interval] (plus 0 when the default "
        "is not 0); density 1 fills every point; leaf density 0 with default 0 gives an empty tree.  "
        "Non-trivial: nest with >= 1 default and >= 1 non-default entry at depth >= 2, or an all-default "
        "nest, or a tensor with tuple coordinates / tuple shape; rank0 with a non-empty name; random with "
        ">= 2 points in the shape.  Distinct = SHA-1 of the generated case.")
ASSUMPTIONS = [
    "nests are rectangular with every dimension >= 1; leaf entries are ints or dyadic floats (exact ==)",
    "Tensor has no uncompress(): 'uncompressing a tensor' is tensor.getRoot().uncompress([shape])",
    "an unowned all-default Fiber of depth >= 2 cannot carry the shape of its lower levels (shape is a per-fiber "
    "attribute): for it only the top-level shape is checked and only uncompress(dims) is demanded",
    "a tensor's YAML file carries its non-zero leaf default (P44, repaired); the FIBER YAML / dictionary formats carry "
    "none: a loaded fiber gets default= at depth 1; "
    "for deeper fibers / the dictionary form with a non-zero default the library == is consulted only when no 0 "
    "is stored (the independent raw-content comparison is always made)",
    "fromRandom: non-unit density on upper ranks only with default 0 (docstring); default None not generated",
    "the transforms that produce the dumped tensor are not under test here: the dumped object is the reference",
]

F_UNC = "P10-uncompress-all-default-indexerror"
F_NAME = "P10-yaml-load-drops-tensor-name"
F_YAML_DEFAULT = "P44-tensor-yaml-drops-nonzero-default"
F_TUPLE = "P10-yaml-tuple-coords-not-loadable"

RANK_POOLS = [["M", "K", "N", "P"], ["A", "B", "C", "D"], ["X1", "Y0", "Z", "W2"]]
NAMES = ["", "", "A", "T1", "my tensor", "x+y", "123", "true", "a: b", " lead", "trail ", " both  ", "\ttab"]
# (nothing is computed with these values, so exact == holds for every int and float: many-digit, non-dyadic and
# extreme values are as legitimate as small ones)
INT_POOL = [1, 2, 3, 5, 7, -1, -4, 10, 0, 2 ** 40, -(2 ** 70)]
FLOAT_POOL = [0.5, 1.5, -2.5, 0.25, 0.1, 1 / 3, 0.30000000000000004, 1e-07, 1e+22, -123456.7890123]
DEFAULTS = [0, 0, 0, 0, 3, -1, 0.5]


# ----------------------------------------------------------------------------
# strategies (every case is JSON-able)

def _reshape(flat, dims):
    if len(dims) == 1:
        return list(flat)
    step = len(flat) // dims[0]
    return [_reshape(flat[i * step:(i + 1) * step], dims[1:]) for i in range(dims[0])]


@st.composite
def nest_cases(draw):
    d = draw(st.sampled_from([1, 2, 2, 3, 3, 4]))
    maxdim = {1: 6, 2: 5, 3: 4, 4: 3}[d]
    dims = [draw(st.integers(1, maxdim)) for _ in range(d)]
    default = draw(st.sampled_from(DEFAULTS))
    floats = draw(st.booleans())
    pool = [v for v in INT_POOL if v != default]
    if floats:
        pool += [v for v in FLOAT_POOL if v != default]
    n = 1
    for s in dims:
        n *= s
    mode = draw(st.sampled_from(["empty", "one", "sparse", "sparse", "half", "half", "dense", "full"]))
    if mode == "empty":
        flat = [default] * n
    elif mode == "one":
        flat = [default] * n
        flat[draw(st.integers(0, n - 1))] = draw(st.sampled_from(pool))
    elif mode == "full":
        flat = [draw(st.sampled_from(pool)) for _ in range(n)]
    else:
        k = {"sparse": 6, "half": 2, "dense": 1}[mode]      # k : 1 odds of default
        cell = st.sampled_from(pool + [default] * (k * len(pool)))
        if mode == "half":
            cell = st.sampled_from(pool + [default] * len(pool))
        if mode == "dense":
            cell = st.sampled_from(pool * 3 + [default] * len(pool))
        flat = [draw(cell) for _ in range(n)]
    rank_ids = draw(st.sampled_from(RANK_POOLS))[:d]
    return {"nest": _reshape(flat, dims), "default": default, "rank_ids": rank_ids,
            "name": draw(st.sampled_from(NAMES)), "pass_shape": draw(st.booleans())}


_sel = st.integers(0, 23)


def _op(kind):
    if kind == "swizzle":
        return st.fixed_dictionaries({"op": st.just("swizzle"), "perm": _sel})
    if kind == "flatten":
        return st.fixed_dictionaries({"op": st.just("flatten"), "depth": _sel, "levels": _sel,
                                      "style": st.sampled_from(["tuple", "tuple", "pair", "linear"])})
    if kind == "splitUniform":
        return st.fixed_dictionaries({"op": st.just("splitUniform"), "depth": _sel, "step": st.integers(1, 3)})
    if kind == "splitEqual":
        return st.fixed_dictionaries({"op": st.just("splitEqual"), "depth": _sel, "size": st.integers(1, 3)})
    if kind == "swap":
        return st.fixed_dictionaries({"op": st.just("swap"), "depth": _sel})
    raise ValueError(kind)


CHAINS = [["flatten"], [], ["swizzle", "flatten"], ["swizzle"], ["splitUniform", "flatten"], ["splitUniform"],
          ["flatten"], ["splitEqual"], ["swizzle", "flatten"], ["swizzle", "splitEqual"], ["flatten"],
          ["splitEqual", "flatten"], ["flatten", "flatten"], ["flatten", "swap"], ["flatten", "flatten"]]


@st.composite
def yaml_cases(draw):
    case = draw(nest_cases())
    chain = draw(st.sampled_from(CHAINS))
    case["ops"] = [draw(_op(k)) for k in chain]
    del case["pass_shape"]
    return case


@st.composite
def random_cases(draw):
    d = draw(st.sampled_from([1, 1, 2, 2, 3]))
    maxdim = {1: 8, 2: 5, 3: 4}[d]
    shape = [draw(st.integers(1, maxdim)) for _ in range(d)]
    default = draw(st.sampled_from([0, 0, 0, 0, 3, -1]))
    dens = st.sampled_from([0.0, 0.25, 0.5, 0.75, 1.0, 1.0])
    form = draw(st.sampled_from(["scalar", "list", "list"]))
    if form == "scalar":
        density = draw(dens)
    else:
        upper = [draw(dens) if default == 0 else 1.0 for _ in range(d - 1)]
        density = upper + [draw(dens)]
    seed = draw(st.one_of(st.integers(0, 3), st.integers(0, 2 ** 31), st.sampled_from(["s", "seed-1"])))
    return {"shape": shape, "density": density, "interval": draw(st.integers(1, 10)), "seed": seed,
            "default": default, "perturb": [draw(st.integers(0, 1000)), draw(st.integers(1001, 2000))],
            "rank_ids": draw(st.sampled_from(RANK_POOLS))[:d]}


# ----------------------------------------------------------------------------
# observers / helpers of this module

def _copy(x):
    return json.loads(json.dumps(x))


def _lib_raised_in(exc, *funcnames):
    """True when the innermost frame of ``exc`` is one of the named library functions."""
    tb = traceback.extract_tb(exc.__traceback__)
    if not tb:
        return False
    last = tb[-1]
    return last.name in funcnames and (os.sep + "fibertree" + os.sep) in last.filename


def _quiet():
    return contextlib.redirect_stdout(io.StringIO())


def stored(root, depth):
    """Raw walk over .coords/.payloads: (list of (point, leaf value), number of empty sub-fibers below the root,
    any tuple coordinate)."""
    leaves = []
    info = {"empty_sub": 0, "tuple": False}

    def rec(f, lvl, prefix):
        if not isinstance(f, Fiber):
            raise Violation("malformed", f"level {lvl}: expected a Fiber, found {type(f).__name__}")
        if len(f.coords) != len(f.payloads):
            raise Violation("malformed", f"level {lvl}: {len(f.coords)} coords / {len(f.payloads)} payloads")
        if lvl > 0 and len(f.coords) == 0:
            info["empty_sub"] += 1
        for c, p in zip(f.coords, f.payloads):
            if isinstance(c, tuple):
                info["tuple"] = True
            if lvl == depth - 1:
                if not isinstance(p, Payload):
                    raise Violation("malformed", f"leaf payload at {prefix + (c,)} is {type(p).__name__}, not a Payload box")
                v = p.value
                if isinstance(v, (Payload, Fiber)):
                    raise Violation("malformed", f"leaf box at {prefix + (c,)} holds a {type(v).__name__}")
                leaves.append((prefix + (c,), v))
            else:
                rec(p, lvl + 1, prefix + (c,))

    rec(root, 0, ())
    return leaves, info["empty_sub"], info["tuple"]


def _typed(x):
    """nest -> nest of (type name, value): distinguishes 1 / 1.0 / Payload(1)."""
    if isinstance(x, list):
        return [_typed(y) for y in x]
    return (type(x).__name__, x)


def content_map(root, depth, default):
    leaves, _, _ = stored(root, depth)
    return {p: (type(v).__name__, v) for p, v in leaves if v != default}


def _pts(cont):
    return sorted(cont.items(), key=repr)


def check_built(what, root, nest, dims, default, rec):
    """content / no explicit default / no empty sub-fiber of a tree made by fromUncompressed."""
    d = len(dims)
    want = {p: (type(v).__name__, v) for p, v in model.nest_content(nest, default).items()}
    leaves, empty_sub, _ = stored(root, d)
    for p, v in leaves:
        if v == default:
            raise Violation("explicit-default", f"{what}: default value {v!r} stored explicitly at {p} (nest {nest}, default {default!r})")
    if empty_sub:
        raise Violation("empty-subfiber", f"{what}: {empty_sub} empty sub-fiber(s) stored (nest {nest}, default {default!r})")
    got = {p: (type(v).__name__, v) for p, v in leaves}
    if got != want:
        raise Violation("content", f"{what}: stored {_pts(got)}, nest has {_pts(want)} (nest {nest}, default {default!r})")
    return want


def _coords_by_level(root, depth):
    levels = [[] for _ in range(depth)]

    def rec(f, lvl):
        levels[lvl].append(list(f.coords))
        if lvl + 1 < depth:
            for p in f.payloads:
                rec(p, lvl + 1)

    rec(root, 0)
    return levels


def check_sorted(what, root, depth):
    for lvl, fibers in enumerate(_coords_by_level(root, depth)):
        for cs in fibers:
            for a, b in zip(cs, cs[1:]):
                if not a < b:
                    raise Violation("malformed", f"{what}: level {lvl} coordinates not strictly increasing: {cs}")


def check_uncompress(what, root, nest, dims, all_default, with_default_shape, rec):
    """uncompress() and uncompress(dims) must return the nest (leaf types included)."""
    calls = []
    if with_default_shape:
        calls.append(("uncompress()", lambda: root.uncompress()))
    calls.append((f"uncompress({dims})", lambda: root.uncompress(list(dims))))
    for label, fn in calls:
        try:
            got = fn()
        except IndexError as e:
            # P10: _fillempty reads payloads[0] of an empty fiber
            if all_default and _lib_raised_in(e, "_fillempty") and findings.is_open(ID, F_UNC):
                rec.known(F_UNC)
                continue
            raise
        if _typed(got) != _typed(nest):
            raise Violation("uncompress", f"{what}.{label} returned {got!r}, nest is {nest!r}")


def eq_gate(default, depth, leaves, route):
    """May the library's == be consulted on an object loaded without its default?"""
    if default == 0:
        return True
    if route == "tensor":
        return True            # setDefault() is applied after loading
    if route == "fiber-yaml" and depth == 1:
        return True            # Fiber.fromYAMLfile(default=...)
    return all(v != 0 for _, v in leaves)


def lib_eq(a, b, what):
    r = (a == b)
    if r is not True:
        raise Violation("not-equal", f"{what}: library == returned {r!r}")
    r = (b == a)
    if r is not True:
        raise Violation("not-equal", f"{what}: library == (reversed) returned {r!r}")


def roundtrip_fiber_forms(what, root, depth, default, tmp, rec):
    """dict2fiber(fiber2dict(f)) and Fiber.dump -> Fiber.fromYAMLfile of one fiber tree."""
    leaves, _, has_tuple = stored(root, depth)
    ref = content_map(root, depth, default)
    # dictionary form (in memory: works for tuple coordinates as well)
    f2 = Fiber.dict2fiber(root.fiber2dict())
    if not isinstance(f2, Fiber):
        raise Violation("dict-form", f"{what}: dict2fiber(fiber2dict(f)) returned {type(f2).__name__}")
    got = content_map(f2, depth, default)
    if got != ref:
        raise Violation("dict-form", f"{what}: dict2fiber(fiber2dict(f)) holds {_pts(got)}, f holds {_pts(ref)}")
    check_sorted(what + " dict form", f2, depth)
    if rec.cls("dict-eq-consulted", eq_gate(default, depth, leaves, "dict")):
        lib_eq(f2, root, f"{what}: dict2fiber(fiber2dict(f)) vs f")
    # YAML file
    path = os.path.join(tmp, "fiber.yaml")
    root.dump(path)
    try:
        with _quiet():
            f3 = Fiber.fromYAMLfile(path, default=default)
    except SystemExit as e:
        if has_tuple and _lib_raised_in(e, "parse") and findings.is_open(ID, F_TUPLE):
            rec.known(F_TUPLE)
            rec.cls("fiber-yaml-rejected-tuple")
            return
        raise
    got = content_map(f3, depth, default)
    if got != ref:
        raise Violation("fiber-yaml", f"{what}: Fiber.dump -> fromYAMLfile holds {_pts(got)}, original {_pts(ref)}")
    check_sorted(what + " yaml", f3, depth)
    if rec.cls("fiber-yaml-eq-consulted", eq_gate(default, depth, leaves, "fiber-yaml")):
        lib_eq(f3, root, f"{what}: Fiber.fromYAMLfile(dump(f)) vs f")


def roundtrip_tensor(what, t, tmp, rec, expect=None):
    """Tensor.dump -> Tensor.fromYAMLfile.  ``expect`` = (rank_ids, shape, name) known from the case
    (untransformed tensors); otherwise the dumped tensor's own attributes are the reference."""
    depth = len(t.ranks)
    rank_ids, shape, name = _copy_ids(t.getRankIds()), t.getShape(), t.getName()
    if expect is not None:
        if rank_ids != expect[0] or shape != expect[1] or name != expect[2]:
            raise Violation("attrs", f"{what}: tensor reports rank ids {rank_ids}, shape {shape}, name {name!r}; "
                            f"built with {expect}")
    default = Payload.get(t.getDefault())
    root = t.getRoot()
    leaves, _, has_tuple = stored(root, depth)
    ref = content_map(root, depth, default)
    tuple_shape = any(isinstance(s, tuple) for s in (shape or []))
    path = os.path.join(tmp, "tensor.yaml")
    t.dump(path)
    try:
        with _quiet():
            t2 = Tensor.fromYAMLfile(path)
    except SystemExit as e:
        # P10: yaml.dump writes !!python/tuple, safe_load refuses it, parse() calls exit(1)
        if (has_tuple or tuple_shape) and _lib_raised_in(e, "parse") and findings.is_open(ID, F_TUPLE):
            rec.known(F_TUPLE)
            rec.exclude()
            rec.cls("tensor-yaml-rejected-tuple")
            return
        raise
    if not isinstance(t2, Tensor):
        raise Violation("tensor-yaml", f"{what}: fromYAMLfile returned {type(t2).__name__}")
    if _copy_ids(t2.getRankIds()) != rank_ids:
        raise Violation("yaml-rank-ids", f"{what}: loaded rank ids {t2.getRankIds()}, dumped {rank_ids}")
    if t2.getShape() != shape:
        raise Violation("yaml-shape", f"{what}: loaded shape {t2.getShape()}, dumped {shape}")
    if t2.getName() != name:
        if depth > 0 and t2.getName() == "" and findings.is_open(ID, F_NAME):
            rec.known(F_NAME)       # P10: fromYAMLfile does not forward the parsed name to fromFiber
        else:
            raise Violation("yaml-name", f"{what}: loaded name {t2.getName()!r}, dumped {name!r}")
    if len(t2.ranks) != depth:
        raise Violation("tensor-yaml", f"{what}: loaded tensor has {len(t2.ranks)} ranks, dumped {depth}")
    got = content_map(t2.getRoot(), depth, default)
    if got != ref:
        raise Violation("tensor-yaml", f"{what}: loaded tensor holds {_pts(got)}, dumped {_pts(ref)}")
    check_sorted(what + " loaded", t2.getRoot(), depth)
    if depth > 0 and Payload.get(t2.getDefault()) != default:
        # "gives an equal object ... for all defaults": the default decides which stored values are content
        if findings.is_open(ID, F_YAML_DEFAULT):
            rec.known(F_YAML_DEFAULT)
            t2.setDefault(default)
        else:
            raise Violation("yaml-default", f"{what}: loaded tensor has leaf default {t2.getDefault()!r}, dumped "
                            f"{default!r}")
    lib_eq(t2, t, f"{what}: Tensor.fromYAMLfile(dump(t)) vs t")
    # the older loading form, the constructor itself (Tensor(yamlfile)), reads the same file
    if depth > 0:
        with _quiet():
            t3 = Tensor(path) if len(leaves) % 2 else Tensor(yamlfile=path)
        got3 = (_copy_ids(t3.getRankIds()), t3.getShape(), t3.getName(), content_map(t3.getRoot(), depth, default))
        if Payload.get(t3.getDefault()) != default and not findings.is_open(ID, F_YAML_DEFAULT):
            raise Violation("yaml-default", f"{what}: Tensor(yamlfile) has leaf default {t3.getDefault()!r}, dumped "
                            f"{default!r}")
        if got3 != (rank_ids, shape, name, ref):
            raise Violation("tensor-yaml", f"{what}: Tensor(yamlfile) gives rank ids {got3[0]}, shape {got3[1]}, name "
                            f"{got3[2]!r}, content {_pts(got3[3])}; dumped {rank_ids}, {shape}, {name!r}, {_pts(ref)}")
        rec.cls("loaded-through-constructor")


def _copy_ids(x):
    return [_copy_ids(y) if isinstance(y, (list, tuple)) else y for y in x]


# ----------------------------------------------------------------------------
# part: nest

def classify_nest(nest, dims, default, rec):
    n = 1
    for s in dims:
        n *= s
    cont = model.nest_content(nest, default)
    d = len(dims)
    all_default = len(cont) == 0
    mixed = 0 < len(cont) < n
    rec.cls(f"depth{d}")
    rec.cls("all-default", all_default)
    rec.cls("mixed-deep", mixed and d >= 2)
    rec.cls("full", len(cont) == n)
    rec.cls("nonzero-default", default != 0)
    rec.cls("zero-as-value", default != 0 and any(v == 0 for v in cont.values()))
    rec.cls("floats", any(isinstance(v, float) for v in cont.values()))
    # a whole all-default sub-nest next to a non-default one (sub-fiber squeezing)
    if d >= 2 and not all_default:
        rec.cls("squeezed-subnest", any(len(model.nest_content(row, default)) == 0 for row in nest))
    return all_default, mixed


def check_nest(case, rec):
    nest = case["nest"]
    default = case["default"]
    rank_ids = list(case["rank_ids"])
    name = case["name"]
    dims = model.nest_shape(nest)
    d = len(dims)
    all_default, mixed = classify_nest(nest, dims, default, rec)
    rec.nontrivial(all_default or (mixed and d >= 2))

    tmp = tempfile.mkdtemp(prefix="vf-c13-")
    try:
        # ---- Tensor.fromUncompressed
        kw = {"shape": list(dims)} if case["pass_shape"] else {}
        t = Tensor.fromUncompressed(rank_ids, _copy(nest), name=name, default=default, **kw)
        if not isinstance(t, Tensor):
            raise Violation("type", f"Tensor.fromUncompressed returned {type(t).__name__}")
        if len(t.ranks) != d:
            raise Violation("shape", f"tensor has {len(t.ranks)} ranks, nest has depth {d}")
        check_built("tensor", t.getRoot(), nest, dims, default, rec)
        check_sorted("tensor", t.getRoot(), d)
        if t.getShape() != dims:
            raise Violation("shape", f"tensor shape {t.getShape()}, nest dimensions {dims} (nest {nest})")
        if t.getRankIds() != rank_ids:
            raise Violation("attrs", f"tensor rank ids {t.getRankIds()}, given {rank_ids}")
        td = Payload.get(t.getDefault())
        if _typed(td) != _typed(default):
            raise Violation("attrs", f"tensor default {td!r}, given {default!r}")
        check_uncompress("tensor root", t.getRoot(), nest, dims, all_default, True, rec)
        roundtrip_tensor("tensor", t, tmp, rec, expect=(rank_ids, dims, name))
        roundtrip_fiber_forms("tensor root", t.getRoot(), d, default, tmp, rec)

        # ---- Fiber.fromUncompressed
        f = Fiber.fromUncompressed(_copy(nest), default=default)
        if not isinstance(f, Fiber):
            raise Violation("type", f"Fiber.fromUncompressed returned {type(f).__name__}")
        check_built("fiber", f, nest, dims, default, rec)
        check_sorted("fiber", f, d)
        full_shape_known = (not all_default) or d == 1
        if full_shape_known:
            if f.getShape() != dims:
                raise Violation("shape", f"fiber shape {f.getShape()}, nest dimensions {dims} (nest {nest})")
        if f.getShape(all_ranks=False) != dims[0]:
            raise Violation("shape", f"fiber top-level shape {f.getShape(all_ranks=False)}, nest has {dims[0]} rows")
        check_uncompress("fiber", f, nest, dims, all_default, full_shape_known, rec)
        roundtrip_fiber_forms("fiber", f, d, default, tmp, rec)
    finally:
        shutil.rmtree(tmp, ignore_errors=True)


# ----------------------------------------------------------------------------
# part: yaml (transformed tensors)

def apply_op(t, op, rec):
    n = len(t.ranks)
    kind = op["op"]
    if kind == "swizzle":
        perms = list(itertools.permutations(range(n)))
        perm = perms[op["perm"] % len(perms)]
        ids = t.getRankIds()
        return t.swizzleRanks([ids[i] for i in perm])
    if kind == "flatten":
        if n < 2:
            rec.cls("op-not-applicable")
            return t
        depth = op["depth"] % (n - 1)
        levels = 1 + op["levels"] % (n - 1 - depth)
        if levels > 1 and op["style"] == "linear":
            levels = 1
        style = op["style"]
        if any(not isinstance(i, str) for i in t.getRankIds()):
            # a rank that already has tuple coordinates cannot be linearised; tuple / pair nest or concatenate
            style = "pair" if style == "linear" else style
            rec.cls("flatten-of-flattened")
        rec.cls(f"flatten-{style}")
        rec.cls("flatten-multi-level", levels > 1)
        return t.flattenRanks(depth=depth, levels=levels, coord_style=style)
    if kind == "swap":
        if n < 2:
            rec.cls("op-not-applicable")
            return t
        return t.swapRanks(depth=op["depth"] % (n - 1))
    if kind == "splitUniform":
        return t.splitUniform(op["step"], depth=op["depth"] % n)
    if kind == "splitEqual":
        return t.splitEqual(op["size"], depth=op["depth"] % n)
    raise ValueError(kind)


def check_yaml(case, rec):
    nest = case["nest"]
    default = case["default"]
    rank_ids = list(case["rank_ids"])
    dims = model.nest_shape(nest)
    d = len(dims)
    all_default, mixed = classify_nest(nest, dims, default, rec)

    tmp = tempfile.mkdtemp(prefix="vf-c13-")
    try:
        t = Tensor.fromUncompressed(rank_ids, _copy(nest), name=case["name"], default=default)
        for op in case["ops"]:
            t = apply_op(t, op, rec)
        rec.cls("ops:" + "+".join(o["op"] for o in case["ops"]) if case["ops"] else "ops:none")
        depth = len(t.ranks)
        _, _, has_tuple = stored(t.getRoot(), depth)
        tuple_shape = any(isinstance(s, tuple) for s in (t.getShape() or []))
        rec.cls("tuple-coords", has_tuple)
        rec.cls("tuple-shape-only", tuple_shape and not has_tuple)
        rec.cls("named", t.getName() != "")
        rec.nontrivial(all_default or (mixed and d >= 2) or has_tuple or tuple_shape)
        tdefault = Payload.get(t.getDefault())
        roundtrip_tensor("transformed tensor", t, tmp, rec)
        roundtrip_fiber_forms("transformed root", t.getRoot(), depth, tdefault, tmp, rec)
    finally:
        shutil.rmtree(tmp, ignore_errors=True)


# ----------------------------------------------------------------------------
# part: rank-0 tensors (enumerated)

R0_VALUES = [0, 1, 2, -3, 10, 0.5, -2.5, 1.5, 0.1, 1 / 3, 1e+22, 2 ** 70]
R0_NAMES = ["", "A", "my tensor", "123", "true", " lead", "trail "]
R0_ROUTES = ["ctor", "fromUncompressed", "fromUncompressed-kw"]


def rank0_cases(tier):
    for v in R0_VALUES:
        for nm in R0_NAMES:
            for r in R0_ROUTES:
                yield {"value": v, "name": nm, "route": r}


def check_rank0(case, rec):
    v, name, route = case["value"], case["name"], case["route"]
    rec.cls(route)
    rec.cls("float", isinstance(v, float))
    rec.cls("zero", v == 0)
    rec.nontrivial(name != "")
    if route == "ctor":
        t = Tensor(rank_ids=[], name=name)
        r = t.getRoot()
        r <<= v
    else:
        t = Tensor.fromUncompressed([], v) if route == "fromUncompressed" else Tensor.fromUncompressed(root=v)
        t.setName(name)
    root = t.getRoot()
    if not isinstance(root, Payload) or isinstance(root.value, (Payload, Fiber)):
        raise Violation("rank0", f"root of a rank-0 tensor is {root!r} ({type(root).__name__})")
    if _typed(root.value) != _typed(v):
        raise Violation("rank0", f"rank-0 tensor holds {root.value!r}, built from {v!r}")
    if t.getShape() != [] or t.getRankIds() != []:
        raise Violation("rank0", f"rank-0 tensor has shape {t.getShape()} / rank ids {t.getRankIds()}")
    tmp = tempfile.mkdtemp(prefix="vf-c13-")
    try:
        path = os.path.join(tmp, "t0.yaml")
        t.dump(path)
        with _quiet():
            t2 = Tensor.fromYAMLfile(path)
        r2 = t2.getRoot()
        if not isinstance(r2, Payload) or _typed(r2.value) != _typed(v):
            raise Violation("rank0-yaml", f"loaded rank-0 tensor holds {r2!r}, dumped {v!r}")
        if t2.getRankIds() != [] or t2.getShape() != []:
            raise Violation("rank0-yaml", f"loaded rank-0 tensor: rank ids {t2.getRankIds()}, shape {t2.getShape()}")
        if t2.getName() != name:
            raise Violation("yaml-name", f"loaded rank-0 tensor name {t2.getName()!r}, dumped {name!r}")
        lib_eq(t2, t, "rank-0 Tensor.fromYAMLfile(dump(t)) vs t")
    finally:
        shutil.rmtree(tmp, ignore_errors=True)


# ----------------------------------------------------------------------------
# part: fromRandom

def _call_random(fn, perturb):
    """Run one fromRandom call from a chosen global random state; the state of
    the process is put back afterwards."""
    saved = random.getstate()
    try:
        random.seed(perturb)
        return fn()
    finally:
        random.setstate(saved)


def check_random_tree(what, root, case, rec):
    shape, interval, default = case["shape"], case["interval"], case["default"]
    d = len(shape)
    density = case["density"]
    dl = density if isinstance(density, list) else [1.0] * (d - 1) + [density]
    leaves, _, _ = stored(root, d)
    check_sorted(what, root, d)
    for lvl, fibers in enumerate(_coords_by_level(root, d)):
        for cs in fibers:
            for c in cs:
                if not (isinstance(c, int) and 0 <= c < shape[lvl]):
                    raise Violation("random-shape", f"{what}: coordinate {c!r} at level {lvl} outside shape {shape}")
    for p, v in leaves:
        ok = isinstance(v, int) and (1 <= v <= interval or (default != 0 and v == 0))
        if not ok:
            raise Violation("random-value", f"{what}: value {v!r} at {p} outside [1, {interval}] (default {default})")
    present = {p for p, v in leaves if v != default}
    if all(x == 1.0 for x in dl) and not (1 <= default <= interval):
        missing = [p for p in model.all_points(shape) if p not in present]
        if missing:
            raise Violation("random-density1", f"{what}: density 1 but points {missing[:5]} are empty (shape {shape})")
    if dl[-1] == 0.0 and default == 0 and present:
        raise Violation("random-density0", f"{what}: leaf density 0 but {len(present)} points are filled")
    return leaves


def check_random(case, rec):
    shape, density, interval = list(case["shape"]), case["density"], case["interval"]
    seed, default = case["seed"], case["default"]
    d = len(shape)
    n = 1
    for s in shape:
        n *= s
    dl = density if isinstance(density, list) else [1.0] * (d - 1) + [density]
    rec.cls(f"depth{d}")
    rec.cls("density-1", all(x == 1.0 for x in dl))
    rec.cls("density-0", dl[-1] == 0.0)
    rec.cls("density-fractional", any(0.0 < x < 1.0 for x in dl))
    rec.cls("scalar-density", not isinstance(density, list))
    rec.cls("nonzero-default", default != 0)
    rec.cls("str-seed", isinstance(seed, str))
    rec.nontrivial(n >= 2)
    p1, p2 = case["perturb"]

    def dens():
        return list(density) if isinstance(density, list) else density

    f1 = _call_random(lambda: Fiber.fromRandom(list(shape), dens(), interval, seed, default=default), p1)
    f2 = _call_random(lambda: Fiber.fromRandom(list(shape), dens(), interval, seed=seed, default=default), p2)
    for what, f in (("Fiber.fromRandom", f1), ("Fiber.fromRandom (2nd call)", f2)):
        if not isinstance(f, Fiber):
            raise Violation("type", f"{what} returned {type(f).__name__}")
    l1 = check_random_tree("Fiber.fromRandom", f1, case, rec)
    l2 = check_random_tree("Fiber.fromRandom (2nd call)", f2, case, rec)
    if l1 != l2 or _coords_by_level(f1, d) != _coords_by_level(f2, d):
        raise Violation("random-repro", f"Fiber.fromRandom twice with seed {seed!r}: {l1} vs {l2}")
    rec.cls("nonempty-result", len(l1) > 0)

    rank_ids = list(case["rank_ids"])
    t1 = _call_random(lambda: Tensor.fromRandom(rank_ids, list(shape), dens(), interval, seed=seed,
                                                default=default), p2)
    t2 = _call_random(lambda: Tensor.fromRandom(rank_ids, list(shape), dens(), interval, seed=seed,
                                                default=default), p1)
    for t in (t1, t2):
        if not isinstance(t, Tensor) or len(t.ranks) != d:
            raise Violation("type", f"Tensor.fromRandom returned {type(t).__name__} with {len(getattr(t, 'ranks', []))} ranks")
        if t.getShape() != shape:
            raise Violation("random-shape", f"Tensor.fromRandom shape {t.getShape()}, requested {shape}")
    m1 = check_random_tree("Tensor.fromRandom", t1.getRoot(), case, rec)
    m2 = check_random_tree("Tensor.fromRandom (2nd call)", t2.getRoot(), case, rec)
    if m1 != m2 or _coords_by_level(t1.getRoot(), d) != _coords_by_level(t2.getRoot(), d):
        raise Violation("random-repro", f"Tensor.fromRandom twice with seed {seed!r}: {m1} vs {m2}")
    lib_eq(f1, f2, "Fiber.fromRandom twice with one seed")
    lib_eq(t1, t2, "Tensor.fromRandom twice with one seed")


# ----------------------------------------------------------------------------
# "reproducible with a given seed" also means: in another interpreter run.  A handful of fixed requests
# (string, int and float seeds) is constructed here and in a fresh interpreter with another hash seed.

XPROC = [{"shape": [4, 3], "density": [0.8, 0.6], "interval": 5, "seed": "seed-1", "default": 0},
         {"shape": [6], "density": 0.5, "interval": 9, "seed": "s", "default": 0},
         {"shape": [3, 2, 2], "density": [1.0, 0.7, 0.7], "interval": 4, "seed": 7, "default": 0},
         {"shape": [5], "density": 0.6, "interval": 3, "seed": 2.5, "default": 2}]

_XPROC_SCRIPT = """
import json, sys
from fibertree import Fiber, Tensor, Payload
req = json.loads(sys.argv[1])
def tree(f):
    return [[c, tree(p) if isinstance(p, Fiber) else Payload.get(p)] for c, p in zip(f.coords, f.payloads)]
f = Fiber.fromRandom(list(req["shape"]), req["density"], req["interval"], req["seed"], default=req["default"])
ids = ["M", "K", "N"][:len(req["shape"])]
t = Tensor.fromRandom(ids, list(req["shape"]), req["density"], req["interval"], seed=req["seed"], default=req["default"])
print(json.dumps([tree(f), tree(t.getRoot())]))
"""


def xproc_cases(tier):
    for i, req in enumerate(XPROC):
        yield dict(req, hashseed=str(101 + i))


def check_xproc(case, rec):
    import json
    import subprocess
    import sys
    from ..run import REPO
    req = {k: case[k] for k in ("shape", "density", "interval", "seed", "default")}

    def tree(f):
        return [[c, tree(p) if isinstance(p, Fiber) else Payload.get(p)] for c, p in zip(f.coords, f.payloads)]

    dens = lambda: list(req["density"]) if isinstance(req["density"], list) else req["density"]
    f = Fiber.fromRandom(list(req["shape"]), dens(), req["interval"], req["seed"], default=req["default"])
    ids = ["M", "K", "N"][:len(req["shape"])]
    t = Tensor.fromRandom(ids, list(req["shape"]), dens(), req["interval"], seed=req["seed"], default=req["default"])
    here = [tree(f), tree(t.getRoot())]
    env = dict(os.environ, PYTHONPATH=REPO, PYTHONHASHSEED=case["hashseed"])
    out = subprocess.run([sys.executable, "-c", _XPROC_SCRIPT, json.dumps(req)], env=env, capture_output=True, text=True,
                         cwd=REPO)
    if out.returncode != 0:
        raise RuntimeError(f"helper interpreter failed: {out.stderr[-500:]}")
    there = json.loads(out.stdout.strip().splitlines()[-1])
    if json.loads(json.dumps(here)) != there:
        raise Violation("random-repro", f"fromRandom with seed {req['seed']!r} gives {here} in this interpreter and "
                        f"{there} in another one (PYTHONHASHSEED={case['hashseed']})")
    rec.cls("str-seed", isinstance(req["seed"], str))
    rec.nontrivial(bool(here[0]))


# ----------------------------------------------------------------------------
# pinned reproducers of the findings

def _pin_uncompress():
    t = Tensor.fromUncompressed(["M", "K"], [[0, 0], [0, 0]])
    try:
        got = t.getRoot().uncompress()
    except IndexError as e:
        return f"uncompress() of the all-default tensor [[0,0],[0,0]] raised IndexError: {e}"
    return None if got == [[0, 0], [0, 0]] else f"uncompress() returned {got!r}"


def _pin_roundtrip(t):
    tmp = tempfile.mkdtemp(prefix="vf-c13-")
    try:
        path = os.path.join(tmp, "t.yaml")
        t.dump(path)
        with _quiet():
            return Tensor.fromYAMLfile(path)
    finally:
        shutil.rmtree(tmp, ignore_errors=True)


def _pin_name():
    t = Tensor.fromUncompressed(["M"], [1, 0, 2], name="A")
    t2 = _pin_roundtrip(t)
    return None if t2.getName() == "A" else f"tensor named 'A' dumped and loaded has name {t2.getName()!r}"


def _pin_tuple():
    t = Tensor.fromUncompressed(["M", "K"], [[0, 2], [0, 1]]).flattenRanks()
    try:
        t2 = _pin_roundtrip(t)
    except SystemExit as e:
        return f"Tensor.fromYAMLfile of a dumped tensor with tuple coordinates called sys.exit({e.code})"
    ok = t2.getRoot().coords == [(0, 1), (1, 1)] and t2.getShape() == t.getShape()
    return None if ok else f"loaded coordinates {t2.getRoot().coords}, shape {t2.getShape()}"


def _pin_yaml_default():
    import tempfile
    t = Tensor.fromUncompressed(["M", "K"], [[5, 5], [0, 5]], default=5)
    d = tempfile.mkdtemp(prefix="vf-c13-pin-")
    try:
        path = os.path.join(d, "t.yaml")
        t.dump(path)
        u = Tensor.fromYAMLfile(path)
        if Payload.get(u.getDefault()) != 5 or not (u == t):
            return (f"Tensor [[5,5],[0,5]] with default 5 dumped and loaded: default {u.getDefault()!r}, "
                    f"loaded == original is {u == t}")
        return None
    finally:
        shutil.rmtree(d, ignore_errors=True)


PINNED = {F_UNC: _pin_uncompress, F_NAME: _pin_name, F_TUPLE: _pin_tuple, F_YAML_DEFAULT: _pin_yaml_default}


PARTS = [
    Part("nest", nest_cases(), check_nest, n_quick=900, n_thorough=4000),
    Part("yaml", yaml_cases(), check_yaml, n_quick=900, n_thorough=4000),
    Part("rank0", None, check_rank0, n_quick=0, n_thorough=0, enumerate=rank0_cases,
         exhaustive_note=f"rank-0 tensors: {len(R0_VALUES)} values x {len(R0_NAMES)} names x "
                         f"{len(R0_ROUTES)} constructors, YAML round trip of each"),
    Part("random", random_cases(), check_random, n_quick=700, n_thorough=3000),
    Part("random-other-interpreter", None, check_xproc, n_quick=0, n_thorough=0, enumerate=xproc_cases,
         exhaustive_note=f"{len(XPROC)} fixed fromRandom requests (string, int, float seeds) built here and in a fresh "
                         "interpreter started with another PYTHONHASHSEED"),
]


def coverage_warnings(rec):
    out = []

    def frac(key, part):
        tot = sum(v for k, v in rec.classes.items() if k.startswith(part + ":depth"))
        return rec.classes.get(key, 0) / max(1, tot), rec.classes.get(key, 0), tot

    for key, part, floor in (("nest:all-default", "nest", 0.10), ("nest:mixed-deep", "nest", 0.10),
                             ("nest:nonzero-default", "nest", 0.15), ("yaml:tuple-coords", "yaml", 0.10),
                             ("yaml:all-default", "yaml", 0.08), ("random:density-1", "random", 0.10)):
        f, n, tot = frac(key, part)
        if f < floor:
            out.append(f"{key} only {n}/{tot}")
    return out
