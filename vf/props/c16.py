"""C16 -- traces are well-formed: one sorted, correctly addressed row per traced event.

Structure of the check
----------------------
* a *program* is either a kernel spec of the C06/C15 family (vf/kernels.py, loop nests of depth
  1-3 in the library idiom) or a *single-operator nest* of this module (``for .. in a``, ``a & b``,
  leader-follower intersection, ``z << a``, ``z << (a & b)``, ``z << leader-follower``,
  ``a.project(.., rank_id)``, each optionally below one plain outer loop, leaf-level operands with
  explicit zeros / empty fibers, pre-populated destinations, a drawn body plan);
* the program is executed by this module's own executor (``_run_kernel`` / ``_run_opnest``) inside a
  Metrics session in which EVERY trace type of every loop rank is registered (``iter`` and the
  labels 0-5 of ``intersect_ populate_ populate_read_ populate_write_ project_``), as file and as
  consumable trace at once.  The executor records, per loop instance, what the harness itself saw
  by reading raw ``Fiber.coords / payloads``: the stored elements of every operand fiber of that
  loop (with a flag "presented", i.e. non-empty), the destination's stored coordinates before the
  loop, the coordinates of the executed bodies and, per body of a populate loop, whether the
  coordinate was still stored in the destination when control came back to the loop (observed,
  not modelled: which elements populate keeps is C05's subject);
* ``model_instance`` (pure Python, no library call) turns that record into the expected rows of
  every *role* (``iter``; each side of each two-finger merge incl. the head left under the finger;
  leader and followers; populate source; populate destination reads / writes; project source);
* the traces are parsed and compared: header, one row per expected access in execution order,
  point columns, ``fiber_pos``, stamp order, label bijection, file == consumable, identical bytes
  for the flush thresholds 2, 3, 5, 1000.
"""

import bisect
import itertools
import os
import shutil
import tempfile

from hypothesis import strategies as st

from fibertree import Fiber, Metrics, Payload, Tensor

from .. import findings
from .. import kernels as K
from ..core import Part, Violation

ID = "C16"
P11 = "P11-trace-pos-counts-presented"

RULE = ("A case is a loop nest plus a collection configuration. Part 'kernels': a kernel spec of the C06/C15 family "
        "(vf/kernels.py: 1-3 operands over 1-3 index variables, any loop order, optional uniform tiling, nested / "
        "flat two-finger or leader-follower intersection, populate of the output at every output rank; operands with "
        "explicit zeros, empty sub-fibers, empty roots) = nests of depth 1-4 loop ranks. Part 'opnests': one operator "
        "(for..in a | a & b | leader-follower(a, b) | z << a | z << (a & b) | z << leader-follower(a, b) | "
        "a.project(k -> mul*k+off, interval, start_pos, rank_id) | for..in a.iterRange(lo, hi[, start_pos]) / a.iterActive() / "
        "a.iterOccupancy(start_pos) -- fiber_pos stays the index in a) at the leaf rank, optionally "
        "below one outer loop -- a plain loop over D[X], or a dense by-reference walk (iterShapeRef / "
        "iterActiveShapeRef with a drawn active range / iterRangeShapeRef with drawn start, end, step) of D[X] or of "
        "the 2-rank output Z[X, K] whose fibers are then the populate destinations -- (1-4 instances with their own "
        "operands), leaf fibers with explicit zeros or no "
        "element at all, a destination that may be pre-populated (explicit zeros too) and shared between the "
        "instances (its rank declared uncompressed, format 'U', in a third of the populate cases: then never "
        "inserting), and a body plan (+=, <<= v, <<= 0, leave alone) per offered coordinate. Part 'flattened': the same "
        "operators (without project) at rank N below plain loops over an operand A[(X,) M, K, N] whose ranks M, K were "
        "flattened (Tensor.flattenRanks(depth 0 or 1, levels=1): tuple coordinates (m, k)), the flattened rank renamed "
        "'MK' with setRankIds and its shape registered with Metrics.associateShape((M, K)); every point column of the "
        "flattened rank -- in its own iter rows and as outer coordinate of the rows of rank N -- must be the row-major "
        "integer m*K + k. Configuration: optionally an earlier, unrelated collection under the SAME file prefix "
        "(every rank registered, one row in every trace file), the order in which the file and the consumable form of "
        "each trace are requested (file first / consumable first / alternating), all sessions of a case share one "
        "prefix; 1-2 registration-subset sessions (below); an order of "
        "the flush thresholds {2,3,5,1000}, 0-n loop ranks registered up front, consumable traces drained at the end "
        "or after every outermost body. Every session registers iter and the labels 0-5 of intersect_, populate_, "
        "populate_read_, populate_write_, project_ on every loop rank (and on a project's source rank); the first "
        "session registers each as file AND consumable trace. Oracle (written from the property statement; the expected "
        "rows come from a pure-Python model of the loop structure fed with what the harness read from the raw "
        "coords/payloads lists): (1) a trace of a rank that was entered starts with the header <loop ranks>_pos.., "
        "<loop ranks>.., fiber_pos down to that rank's loop level, a trace of a rank never entered is empty; (2) every "
        "row has 2*(level+1)+1 integer columns; (3) stamps are lexicographically non-decreasing, strictly increasing "
        "for iter; (4) the rows of a loop instance carry the coordinates of the enclosing bodies, instances appear in "
        "execution order; (5) per role exactly the expected (coordinate, fiber_pos) sequence: iter = one row per body, "
        "position = index in the stored fiber (eager) / ordinal in the lazy sequence; intersect = the elements each "
        "finger visits in a (lazily driven) two-finger merge plus the head left under the finger, leader = every "
        "presented element, follower = one probe per leader element (position asserted when the coordinate is "
        "stored); populate = every presented source element; populate_read = offered coordinates already stored in "
        "the destination; populate_write = bodies whose element stayed; project = source elements whose image lies "
        "in the interval (source coordinate, index in the source fiber); for the destination side of an INSERTING "
        "populate (compressed destination, first source coordinate below the destination's stored maximum) only: "
        "rows of that instance carry its prefix, every offered-and-stored coordinate is read and every retained "
        "coordinate is written at least once; (6) label numbers are not hard-coded: the roles of a rank must map "
        "injectively onto the labels 0-5 of their type (read/write of one destination onto the same label), every "
        "other label stays header-only; (7) consumable rows == file rows; (8) the files of the sessions run with the "
        "other three thresholds are byte-identical; (9) registration subsets: the same nest is re-run in 1-2 sessions that "
        "register only a drawn subset of the (rank, type) pairs -- picked among the traces that held rows, plus "
        "arbitrary pairs; single-trace sessions, sessions that leave an outer rank without any trace, each trace as "
        "file, as consumable ONLY, or both -- and every registered trace must show the same header, the same "
        "(point.., fiber_pos) rows and the same stamp columns of every loop level that is not the level of a populate "
        "loop as in the all-registered session (the populate iterator ticks its level once more per destination row "
        "it traces, so on the unchanged library the stamps of that level depend on whether populate_read/write are "
        "registered -- observed: iter stamps 0,2 with and 0,1 without the write trace; rows of the destination side of "
        "an inserting populate are excluded); part 'small' runs one single-trace session per trace that held rows. "
        "Exact stamp values are not asserted. Non-trivial: >= 2 loop "
        "levels, an inserting populate or an operand fiber storing an empty element, and a trace with more than 3 "
        "lines (so thresholds 2 and 3 flush mid-session at different boundaries). Distinct = SHA-1 of the case.")

ASSUMPTIONS = ["operands, destinations and the output are built / tiled / swizzled before Metrics.beginCollect; only the "
               "loop nest runs inside a session",
               "every rank is declared compressed (format C, the default) except the destination rank of the populate "
               "operators in 'opnests' / 'small', which is declared uncompressed (setFormat(rank, 'U')) in a third of the "
               "cases while the source stays compressed: such a destination is updated in place, is never an inserting "
               "populate, and every destination row must carry the index the element has in z's stored lists at "
               "that moment; SOURCE fibers of a rank declared 'U' (they present their whole active range, absent "
               "coordinates included) are not generated",
               "destinations are created with a shape (the populate operator asserts an authoritative shape when it "
               "inserts while collecting)",
               "a dense by-reference walk reads no element: the rows of its own iter trace are not asserted (the library "
               "writes none), only that the traces below it carry its coordinate, in the right format and order",
               "one perfect loop nest per session (two sibling loops over the same rank restart the stamp at 0)",
               "explicit Metrics.registerRank calls follow the loop order and never name the target rank of a "
               "project (matchRanks has to precede the registration of the target rank)",
               "project: increasing affine maps k -> mul*k + off with mul >= 1, off >= 0; start_pos skips only "
               "elements whose image lies below the interval; the projected fiber is consumed completely "
               "(plain loop or populate source)",
               "the main session registers all traces together; in the registration-subset sessions the destination-side "
               "rows of an inserting populate (they depend on whether the write trace is registered too) and the stamp "
               "column of a populate loop's own level (it advances once more per traced destination row) are not "
               "compared with the main session",
               "range loops: f.iterRange(lo, hi) with either end open, f.iterActive() after setActive((lo, hi)), "
               "f.iterOccupancy(start_pos=n) and f.iterRange(lo, hi, start_pos=n) with 0 <= n < stored length and every "
               "element in front of n below lo (the documented shortcut contract)",
               "follower probes of a leader-follower intersection for a coordinate the follower does not store: "
               "the row must exist, its position is not asserted (there is no element)",
               "tuple coordinates occur only in part 'flattened': one flattened rank (levels=1) that is iterated by a "
               "plain loop, renamed to a plain string and registered with Metrics.associateShape before the nest; the "
               "integer form of (m, k) within shape (M, K) is row-major, m*K + k (test_metrics.py::test_associate_shape)",
               "the harness restores the import-time values of the Metrics class attributes at the start of every "
               "case"]

FAMILIES = ["intersect", "populate", "populate_read", "populate_write", "project"]
NLABELS = 6
THRESHOLDS = [2, 3, 5, 1000]


# trace files are tiny and numerous (31 per rank and session): prefer a memory file system
_TMPFS = "/dev/shm" if os.path.isdir("/dev/shm") and os.access("/dev/shm", os.W_OK | os.X_OK) else None


def trace_types():
    return ["iter"] + [f"{fam}_{k}" for fam in FAMILIES for k in range(NLABELS)]


# ---------------------------------------------------------------------------
# model (pure Python; nothing below calls the library)
# ---------------------------------------------------------------------------
#
# loop-instance record (built by the executors)::
#
#   {"rank": loop rank, "level": L, "prefix": [coords of the enclosing bodies],
#    "expr": expression (below), "fibers": {name: [[coord, presented], ...]},      # stored elements
#    "z": None | {"coords": [...stored before the loop...], "compressed": bool},
#    "bodies": [coord, ...], "outcomes": [["obs", still stored after the body], ...]}
#
# expression::  ["fiber", name] | ["and", e, e] | ["lf", [name, ...]]
#             | ["project", name, mul, off, interval | None, start_pos | None, source rank]
#             | ["lshift", e]
#
# An element flowing through the model is (coord, pos, alt): pos = its index in the sequence it is
# read from (stored index of an eager fiber, ordinal of a lazy one); alt = the number of non-empty
# elements delivered before it (+ start_pos) -- what finding P11 reports instead of pos.


class ModelMismatch(Exception):
    pass


class Role:
    def __init__(self, key, family, rank, p11):
        self.key = key
        self.family = family        # "intersect" | "populate" | "dest" | "project"
        self.rank = rank
        self.p11 = p11              # rows are read straight from an eager fiber
        self.rows = []              # [(coord, pos, alt)]           (dest: read rows)
        self.wrows = []             # dest only: write rows
        self.loose = None           # dest of an inserting populate: {"read": set, "write": set}


class Inst:
    """Expected rows of one loop instance."""

    def __init__(self, entry):
        self.entry = entry
        self.roles = {}
        self.iter_rows = []
        self.bodies = []
        self.inserting = False

    def role(self, key, family, rank=None, p11=False):
        if key not in self.roles:
            self.roles[key] = Role(key, family, rank or self.entry["rank"], p11)
        return self.roles[key]


def m_fiber(snap, start=0):
    n = 0
    for idx in range(start, len(snap)):
        c, pres = snap[idx]
        if pres:
            yield (c, idx, start + n)
            n += 1


def _is_eager(expr):
    return expr[0] == "fiber"


def m_and(inst, key, ea, eb):
    ra = inst.role(key + ".a", "intersect", p11=_is_eager(ea))
    rb = inst.role(key + ".b", "intersect", p11=_is_eager(eb))
    ga = m_build(inst, key + "a", ea)
    gb = m_build(inst, key + "b", eb)
    a = next(ga, None)
    b = next(gb, None)
    n = 0
    while a is not None and b is not None:
        if a[0] == b[0]:
            ra.rows.append(a)
            rb.rows.append(b)
            yield (a[0], n, n)
            n += 1
            a = next(ga, None)
            b = next(gb, None)
        elif a[0] < b[0]:
            ra.rows.append(a)
            a = next(ga, None)
        else:
            rb.rows.append(b)
            b = next(gb, None)
    # the element still under a finger when the other side ran out has been read too
    if a is not None:
        ra.rows.append(a)
    if b is not None:
        rb.rows.append(b)


def m_lf(inst, key, names):
    fibers = inst.entry["fibers"]
    rl = inst.role(key + ".0", "intersect", p11=True)
    rf = [inst.role(f"{key}.{j + 1}", "intersect") for j in range(len(names) - 1)]
    n = 0
    for e in m_fiber(fibers[names[0]]):
        rl.rows.append(e)
        for j, nm in enumerate(names[1:]):
            coords = [c for c, _ in fibers[nm]]
            pos = coords.index(e[0]) if e[0] in coords else None      # None: not asserted
            rf[j].rows.append((e[0], pos, pos))
        yield (e[0], n, n)
        n += 1


def m_project(inst, key, name, mul, off, interval, start, src_rank):
    r = inst.role(key, "project", rank=src_rank, p11=True)
    n = 0
    for e in m_fiber(inst.entry["fibers"][name], start or 0):
        c = mul * e[0] + off
        if interval is not None and c >= interval[1]:
            break
        if interval is None or c >= interval[0]:
            yield (c, n, n)
            n += 1
            r.rows.append(e)


def m_lshift(inst, key, esrc):
    entry = inst.entry
    rs = inst.role(key + ".src", "populate", p11=_is_eager(esrc))
    rd = inst.role(key + ".dst", "dest")
    z = list(entry["z"]["coords"])
    outcomes = entry["outcomes"]
    need_r, need_w = set(), set()
    n = 0
    for e in m_build(inst, key + "s", esrc):
        c = e[0]
        if n == 0:
            inst.inserting = bool(entry["z"]["compressed"] and z and c < z[-1])
        rs.rows.append(e)
        existed = c in z
        if existed:
            rd.rows.append((c, z.index(c), z.index(c)))
            need_r.add(c)
        yield (c, n, n)
        if n >= len(outcomes):
            raise ModelMismatch(f"the populate loop should have run a body for coordinate {c} (body #{n})")
        # whether the element stayed is a matter of the populate semantics (C05), not of the traces:
        # the executor OBSERVED it (coordinate still stored in the destination when control returned
        # to the populate loop)
        retained = outcomes[n][1]
        if retained:
            if not existed:
                z.insert(bisect.bisect_left(z, c), c)
            rd.wrows.append((c, z.index(c), z.index(c)))
            need_w.add(c)
        elif existed:
            z.remove(c)
        n += 1
    if inst.inserting:
        rd.loose = {"read": need_r, "write": need_w}


def m_build(inst, key, expr):
    kind = expr[0]
    if kind == "fiber":
        return m_fiber(inst.entry["fibers"][expr[1]])
    if kind == "and":
        return m_and(inst, key + "&", expr[1], expr[2])
    if kind == "lf":
        return m_lf(inst, key + "lf", expr[1])
    if kind == "project":
        return m_project(inst, key + "prj", *expr[1:])
    if kind == "lshift":
        return m_lshift(inst, key + "<<", expr[1])
    if kind == "range":
        # for .. in f.iterRange(lo, hi[, start_pos]) / f.iterActive() / f.iterOccupancy(start_pos): the stored,
        # non-empty elements from position start_pos on whose coordinate lies in [lo, hi); position = index
        # in the fiber
        _, name, lo, hi, start = expr
        snap = inst.entry["fibers"][name]

        def gen():
            for idx in range(start or 0, len(snap)):
                c, pres = snap[idx]
                if hi is not None and c >= hi:
                    break
                if pres and (lo is None or c >= lo):
                    yield (c, idx, idx)
        return gen()
    if kind == "dense":
        # dense by-reference walk: every coordinate of the range, in order (no element is "read":
        # the library writes no iter row for such a loop, see check_session)
        return ((c, n, n) for n, c in enumerate(expr[1]))
    raise AssertionError(expr)


def model_instance(entry):
    inst = Inst(entry)
    for c, pos, _ in m_build(inst, "", entry["expr"]):
        inst.iter_rows.append((c, pos))
        inst.bodies.append(c)
    return inst


# ---------------------------------------------------------------------------
# executors (library idiom only) -- they record what the harness reads from the raw lists
# ---------------------------------------------------------------------------


def snap_fiber(f):
    if f.getOwner() is not None and f.getOwner().getFormat() == "U":
        # a rank declared uncompressed presents every coordinate of its active range; the element's index in
        # such a fiber is its offset from the start of that range
        return [[c, True] for c in range(*f.getActive())]
    pres = set(K._presented(f))
    return [[c, c in pres] for c in f.coords]


def _and_chain(names):
    e = ["fiber", names[0]]
    for nm in names[1:]:
        e = ["and", e, ["fiber", nm]]
    return e


class KernelProgram:
    def __init__(self, spec):
        self.spec = spec
        self.prep = K.prepare(spec)
        self.order = list(spec["order"])
        self.levels = {r: i for i, r in enumerate(self.order)}
        self.traced = list(self.order)
        self.noprereg = set()

    def run(self, log, on_outer_body):
        _run_kernel(self.prep, log, on_outer_body)


def _run_kernel(prep, log, on_outer_body):
    spec = prep.spec
    order, style = spec["order"], spec["style"]
    nops = len(prep.operands)
    zranks = K.out_ranks(spec)
    opranks = [K.operand_ranks(spec, i) for i in range(nops)]
    lf = style == "leader-follower"

    def body(z_ref, vals):
        prod = vals[0]
        for v in vals[1:]:
            prod = prod * v
        if lf and prod == 0:
            return
        z_ref += prod

    def loop(level, z, cursors, depth_z, depths, prefix):
        if level == len(order):
            body(z, cursors)
            return
        r = order[level]
        holders = [i for i in range(nops) if depths[i] < len(opranks[i]) and opranks[i][depths[i]] == r]
        assert holders
        z_has = depth_z < len(zranks) and zranks[depth_z] == r
        z_leaf = z_has and depth_z + 1 == len(zranks)
        fibers = [cursors[i] for i in holders]
        names = ["ABC"[i] for i in holders]
        src = fibers[0] if len(fibers) == 1 else K._co(style, fibers)
        if len(fibers) == 1:
            expr = ["fiber", names[0]]
        elif lf:
            expr = ["lf", names]
        else:
            expr = _and_chain(names)
        entry = {"rank": r, "level": level, "prefix": list(prefix), "expr": ["lshift", expr] if z_has else expr,
                 "fibers": {nm: snap_fiber(f) for nm, f in zip(names, fibers)},
                 "z": {"coords": list(z.coords), "compressed": True} if z_has else None,
                 "bodies": [], "outcomes": []}
        log.append(entry)
        it = (z << src) if z_has else src
        pending = None
        for c, payload in it:
            if pending is not None:
                # control is back in the populate loop: is the previous body's element still stored?
                entry["outcomes"].append(["obs", pending in z.coords])
                pending = None
            if z_has:
                z_n, payload = payload
            else:
                z_n = z
            parts = K._unpack(style, len(holders), payload)
            where = f"below rank {r} at {prefix + [c]}"
            for i, p in zip(holders, parts):
                K._expect_kind(p, depths[i] + 1 < len(opranks[i]), f"operand {'ABC'[i]} {where}")
            if z_has:
                K._expect_kind(z_n, not z_leaf, f"output {where}")
            entry["bodies"].append(c)
            nxt, nd = list(cursors), list(depths)
            for i, p in zip(holders, parts):
                nxt[i] = p
                nd[i] += 1
            loop(level + 1, z_n, nxt, depth_z + (1 if z_has else 0), nd, prefix + [c])
            if z_has:
                pending = c
            if level == 0 and on_outer_body is not None:
                on_outer_body()
        if pending is not None:
            entry["outcomes"].append(["obs", pending in z.coords])

    loop(0, prep.out.getRoot(), [t.getRoot() for t in prep.operands], 0, [0] * nops, [])


# -- single-operator nests ---------------------------------------------------
#
#   {"op": "iter" | "and" | "lf" | "lshift" | "lshift_and" | "lshift_lf" | "project",
#    "shape": S,                                  # shape of rank K
#    "outer": None | [[x, v], ...],               # driver D[X] (v == 0: explicit zero, not presented)
#    "inst":  [{"a": [[c, v], ...], "b": [[c, v], ...], "plan": [[action, v], ...]}, ...],
#                                                 # one per presented driver element (one if no outer);
#                                                 # plan is indexed by the offered coordinate
#    "z": [[c, v], ...], "z_shared": bool,        # initial destination content
#    "proj": None | {"mul": m, "off": o, "interval": [lo, hi] | None, "start": n | None}}

OPS = ["iter", "and", "lf", "lshift", "lshift_and", "lshift_lf", "project", "iter_range"]


def _leaf_tensor(rank, shape, elems, name):
    t = Tensor(rank_ids=[rank], shape=[shape], name=name)
    root = t.getRoot()
    for c, v in elems:
        ref = root.getPayloadRef(c)
        ref <<= v
    return t


def dense_coords(dense):
    """Coordinates a dense walk visits (from the spec alone)."""
    if dense["mode"] == "shape":
        return list(range(dense["n"]))
    if dense["mode"] == "active":
        return list(range(dense["lo"], dense["hi"]))
    return list(range(dense["lo"], dense["hi"], dense["step"]))


class OpProgram:
    def __init__(self, nest):
        assert not Metrics.isCollecting()
        self.nest = nest
        op = nest["op"]
        self.op = op
        S = nest["shape"]
        self.proj = nest.get("proj") if "project" in op else None
        self.has_z = op.startswith("lshift")
        self.inner = "M" if self.proj else "K"
        outer = nest.get("outer")
        dense = self.dense = nest.get("dense")
        self.zout = None
        if dense is not None:
            # dense by-reference outer loop over D[X] (leaf) or over the output Z[X, inner] itself
            self.dense_coords = dense_coords(dense)
            ninst = len(self.dense_coords)
            if self.has_z and dense.get("z_outer"):
                zsh = S if not self.proj else self.proj["mul"] * (S - 1) + self.proj["off"] + 1
                self.zout = Tensor(rank_ids=["X", self.inner], shape=[dense["n"], zsh], name="Z")
                for x, _ in outer or []:
                    for c, v in nest.get("z", []):
                        ref = self.zout.getRoot().getPayloadRef(x, c)
                        ref <<= v
                if nest.get("z_fmt") == "U":
                    self.zout.setFormat(self.inner, "U")
                self.driver = self.zout
            else:
                self.driver = _leaf_tensor("X", dense["n"], outer or [], "D")
            if dense["mode"] == "active":
                self.driver.getRoot().setActive((dense["lo"], dense["hi"]))
        else:
            self.driver = (_leaf_tensor("X", max([c for c, _ in outer] + [0]) + 1, outer, "D")
                           if outer is not None else None)
            ninst = len([1 for _, v in outer if v != 0]) if outer is not None else 1
        assert len(nest["inst"]) == ninst
        self.a = [_leaf_tensor("K", S, i["a"], "A") for i in nest["inst"]]
        self.rng = nest.get("rng") if op == "iter_range" else None
        if self.rng and self.rng["form"] == "active":
            for t in self.a:
                t.getRoot().setActive((self.rng["lo"], self.rng["hi"]))
        self.b = [_leaf_tensor("K", S, i.get("b", []), "B") for i in nest["inst"]]
        uf = nest.get("u_fmt")
        if uf:
            # one operand of a two-finger intersection lives in a rank declared uncompressed (and may be shorter
            # than the other one, so that it runs out first)
            side = [_leaf_tensor("K", uf["shape"], [e for e in i.get(uf["side"], []) if e[0] < uf["shape"]],
                                 uf["side"].upper()) for i in nest["inst"]]
            for t in side:
                t.setFormat("K", "U")
            if uf["side"] == "a":
                self.a = side
            else:
                self.b = side
        zshape = S if not self.proj else self.proj["mul"] * (S - 1) + self.proj["off"] + 1
        self.zshape = zshape
        if self.has_z and self.zout is None:
            nz = 1 if nest.get("z_shared", True) else ninst
            zs = [_leaf_tensor(self.inner, zshape, nest.get("z", []), "Z") for _ in range(nz)]
            if nest.get("z_fmt") == "U":
                # destination rank declared uncompressed (source stays compressed): updated in place,
                # never an inserting populate
                for t in zs:
                    t.setFormat(self.inner, "U")
            self.z = [zs[i % nz] for i in range(ninst)]
        self.cur_z = None
        self.order = (["X"] if self.driver is not None else []) + [self.inner]
        self.levels = {r: i for i, r in enumerate(self.order)}
        self.traced = list(self.order)
        self.noprereg = set()
        if self.proj:
            self.levels["K"] = self.levels["M"]
            self.traced.append("K")
            self.noprereg.add("M")

    def _a(self, i):
        return self.a[i].getRoot()

    def _b(self, i):
        return self.b[i].getRoot()

    def _plan(self, i):
        return self.nest["inst"][i].get("plan", [])

    def _z(self, i):
        return self.cur_z if self.zout is not None else self.z[i].getRoot()

    def _source(self, i):
        a = self._a(i)
        b = self._b(i)
        op = self.op
        if op in ("iter", "lshift"):
            return a, ["fiber", "a"]
        if op == "iter_range":
            g = self.rng
            expr = ["range", "a", g["lo"], g["hi"], g["start"]]
            if g["form"] == "active":
                return a.iterActive(), expr
            if g["form"] == "occ_start":
                return a.iterOccupancy(start_pos=g["start"]), expr
            if g["start"] is not None:
                return a.iterRange(g["lo"], g["hi"], start_pos=g["start"]), expr
            return a.iterRange(g["lo"], g["hi"]), expr
        if op in ("and", "lshift_and"):
            return a & b, ["and", ["fiber", "a"], ["fiber", "b"]]
        if op in ("lf", "lshift_lf"):
            return Fiber.intersection(a, b, style="leader-follower"), ["lf", ["a", "b"]]
        p = self.proj
        mul, off = p["mul"], p["off"]
        iv = tuple(p["interval"]) if p["interval"] is not None else None
        lazy = a.project(trans_fn=lambda k: mul * k + off, interval=iv, rank_id="M", start_pos=p["start"])
        return lazy, ["project", "a", mul, off, p["interval"], p["start"], "K"]

    def run(self, log, on_outer_body):
        if self.driver is None:
            self._instance(0, [], log, on_body=on_outer_body)
            return
        d = self.driver.getRoot()
        if self.dense is not None:
            dn = self.dense
            entry = {"rank": "X", "level": 0, "prefix": [], "expr": ["dense", list(self.dense_coords)], "fibers": {},
                     "z": None, "bodies": [], "outcomes": [], "dense": True}
            byval = dn.get("byval") and self.zout is None      # (a by-value walk of the OUTPUT would hand out temporaries)
            if dn["mode"] == "shape":
                it = d.iterShape() if byval else d.iterShapeRef()
            elif dn["mode"] == "active":
                it = d.iterActiveShape() if byval else d.iterActiveShapeRef()
            else:
                it = d.iterRangeShape(dn["lo"], dn["hi"], dn["step"]) if byval else \
                    d.iterRangeShapeRef(dn["lo"], dn["hi"], dn["step"])
        else:
            entry = {"rank": "X", "level": 0, "prefix": [], "expr": ["fiber", "d"], "fibers": {"d": snap_fiber(d)},
                     "z": None, "bodies": [], "outcomes": []}
            it = d
        log.append(entry)
        for n, (x, sub) in enumerate(it):
            entry["bodies"].append(x)
            if n >= len(self.a):
                raise Violation("bodies", f"the outer loop {entry['expr']} over {entry['fibers']} ran a body #{n} "
                                f"at X={x}")
            if self.zout is not None:
                K._expect_kind(sub, True, f"output fiber delivered by the dense walk at X={x}")
                self.cur_z = sub
            self._instance(n, [x], log)
            if on_outer_body is not None:
                on_outer_body()

    def _instance(self, i, prefix, log, on_body=None):
        src, expr = self._source(i)
        a = self._a(i)
        b = self._b(i)
        entry = {"rank": self.inner, "level": len(prefix), "prefix": list(prefix),
                 "expr": ["lshift", expr] if self.has_z else expr,
                 "fibers": {"a": snap_fiber(a), "b": snap_fiber(b)}, "z": None, "bodies": [], "outcomes": []}
        plan = self._plan(i)
        if self.has_z:
            z = self._z(i)
            entry["z"] = {"coords": list(z.coords), "compressed": self.nest.get("z_fmt") != "U"}
            it = z << src
        else:
            it = src
        log.append(entry)
        pending = None
        for c, payload in it:
            if pending is not None:
                entry["outcomes"].append(["obs", pending in z.coords])
                pending = None
            entry["bodies"].append(c)
            if self.has_z:
                z_ref, _ = Payload.get(payload)
                K._expect_kind(z_ref, False, f"destination reference at {prefix + [c]}")
                act, v = plan[c] if c < len(plan) else ("add", 1)
                if act == "add":
                    z_ref += v
                elif act == "assign":
                    z_ref <<= v
                elif act == "zero":
                    z_ref <<= 0
                pending = c
            if on_body is not None:
                on_body()
        if pending is not None:
            entry["outcomes"].append(["obs", pending in z.coords])


# -- nests below a flattened rank (tuple coordinates) ---------------------------
#
#   {"op": "iter" | "and" | "lf" | "lshift" | "lshift_and" | "lshift_lf", "shape": S,   # S = shape of rank N
#    "flat": {"depth": 0 | 1, "shape": [(X,) M, K], "tree": nested tree of A[(X,) M, K, N]},
#    "inst": [{"b": [[c, v], ...], "plan": [...]}, ...],      # used cyclically, one per N fiber visited
#    "z": [[c, v], ...], "z_shared": bool}
#
# A is flattened with Tensor.flattenRanks(depth, levels=1): ranks (X,) MK, N; the coordinates of MK
# are tuples (m, k).  The flattened rank gets the plain id "MK" (setRankIds) and its shape is
# registered with Metrics.associateShape, as test_metrics.py::test_associate_shape does.  The
# loops above N are plain ``for c, sub in fiber`` loops, the operator sits at rank N.


def linearise(coord, shape):
    """Row-major integer form of a tuple coordinate within `shape` (what associateShape documents:
    the tuple flattened into one integer coordinate)."""
    v = 0
    for c, n in zip(coord, shape):
        v = v * n + c
    return v


class FlatProgram(OpProgram):
    def __init__(self, nest):
        assert not Metrics.isCollecting()
        self.nest = nest
        self.op = nest["op"]
        self.proj = None
        self.has_z = self.op.startswith("lshift")
        self.inner = "N"
        flat = nest["flat"]
        S = nest["shape"]
        upper = (["X"] if flat["depth"] else []) + ["M", "K"]
        a = K.build_operand({"rank_ids": upper + ["N"], "shape": list(flat["shape"]) + [S], "default": 0,
                             "tree": flat["tree"], "auth": True}, name="A")
        a = a.flattenRanks(depth=flat["depth"], levels=1)
        self.order = (["X"] if flat["depth"] else []) + ["MK", "N"]
        a.setRankIds(list(self.order))
        self.A = a
        self.flat = {"MK": list(flat["shape"][-2:])}
        self.assoc = [["MK", list(flat["shape"][-2:])]]

        def count(f, d):
            return len(f.coords) if d == 1 else sum(count(p, d - 1) for p in f.payloads)

        ninst = count(a.getRoot(), len(self.order) - 1)
        insts = nest["inst"]
        self.b = [_leaf_tensor("N", S, insts[i % len(insts)].get("b", []), "B") for i in range(ninst)]
        self.plans = [insts[i % len(insts)].get("plan", []) for i in range(ninst)]
        if self.has_z:
            nz = 1 if nest.get("z_shared", True) else ninst
            zs = [_leaf_tensor("N", S, nest.get("z", []), "Z") for _ in range(nz)]
            self.z = [zs[i % nz] for i in range(ninst)] if nz else []
        self.levels = {r: i for i, r in enumerate(self.order)}
        self.traced = list(self.order)
        self.noprereg = set()
        self.cur_a = None
        self.count = 0
        self.zout = None
        self.dense = None

    def _a(self, i):
        return self.cur_a

    def _plan(self, i):
        return self.plans[i]

    def run(self, log, on_outer_body):
        self.count = 0

        def loop(f, level, prefix):
            entry = {"rank": self.order[level], "level": level, "prefix": list(prefix), "expr": ["fiber", "d"],
                     "fibers": {"d": snap_fiber(f)}, "z": None, "bodies": [], "outcomes": []}
            log.append(entry)
            for c, sub in f:
                entry["bodies"].append(c)
                K._expect_kind(sub, True, f"payload of rank {self.order[level]} at {prefix + [c]}")
                if level + 2 == len(self.order):
                    if self.count >= len(self.b):
                        raise Violation("bodies", f"the loops above N ran more bodies than N fibers are stored "
                                        f"({len(self.b)}) at {prefix + [c]}")
                    self.cur_a = sub
                    self.count += 1
                    self._instance(self.count - 1, prefix + [c], log)
                else:
                    loop(sub, level + 1, prefix + [c])
                if level == 0 and on_outer_body is not None:
                    on_outer_body()

        loop(self.A.getRoot(), 0, [])


# ---------------------------------------------------------------------------
# sessions
# ---------------------------------------------------------------------------


class Session:
    def __init__(self):
        self.files = {}         # "<rank>-<type>.csv" -> bytes
        self.consumed = {}      # (rank, type) -> rows
        self.log = []
        self.loop_order = None


def stale_session(prog, prefix):
    """An earlier, unrelated collection under the same prefix (driven through the Metrics API the way
    test_metrics.py does): every rank is registered and every trace receives one row, so every trace
    file of the prefix holds a header and a row when the session under test begins."""
    assert not Metrics.isCollecting()
    Metrics.beginCollect(prefix)
    try:
        for r, shape in getattr(prog, "assoc", []):
            Metrics.associateShape(r, tuple(shape))
        for r in prog.traced:
            for ty in trace_types():
                Metrics.trace(r, type_=ty)
            if r not in prog.order:
                Metrics.matchRanks(r, prog.order[prog.levels[r]])
        for r in prog.order:
            Metrics.registerRank(r)
        for r in prog.traced:
            for ty in trace_types():
                Metrics.addUse(r, 1, 7, type_=ty)
    finally:
        Metrics.endCollect()


def plan_all(prog, how):
    """Registration plan: every trace type on every traced rank."""
    return [(r, ty, how) for r in prog.traced for ty in trace_types()]


def run_session(prog, threshold, prefix, plan, prereg, consume, reg="file"):
    """plan: [(rank, type, "file" | "consumable" | "both"), ...] -- the traces this session requests."""
    assert not Metrics.isCollecting()
    res = Session()
    if isinstance(plan, bool):
        plan = plan_all(prog, "both" if plan else "file")
    cons_keys = [(r, ty) for r, ty, how in plan if how != "file"]
    file_names = {f"{r}-{ty}.csv" for r, ty, how in plan if how != "consumable"}
    consumable = bool(cons_keys)

    def drain():
        for key in cons_keys:
            res.consumed.setdefault(key, []).extend(Metrics.consumeTrace(*key))

    Metrics.beginCollect(prefix)
    try:
        Metrics.setNumCachedUses(threshold)
        for r, shape in getattr(prog, "assoc", []):
            Metrics.associateShape(r, tuple(shape))
        for n, (r, ty, how) in enumerate(plan):
            # the file and the consumable form of a trace may be requested in either order
            cons_first = how == "consumable" or (how == "both" and (reg == "consumable" or
                                                                    (reg == "mixed" and n % 2 == 1)))
            if cons_first:
                Metrics.trace(r, type_=ty, consumable=True)
            if how != "consumable":
                Metrics.trace(r, type_=ty)
            if how == "both" and not cons_first:
                Metrics.trace(r, type_=ty, consumable=True)
        for r in prog.order[:prereg]:
            Metrics.registerRank(r)
        hook = drain if (consumable and consume == "outer") else None
        prog.run(res.log, hook)
        if consumable:
            drain()
        res.loop_order = list(Metrics.loop_order)
    finally:
        if Metrics.isCollecting():
            for rk in list(Metrics.traces or {}):
                for ty, (ft, mt, started) in list(Metrics.traces[rk].items()):
                    if mt:
                        Metrics.traces[rk][ty] = (ft, [], started)
            Metrics.endCollect()
    d, base = os.path.split(prefix)
    for fn in sorted(os.listdir(d)):
        if fn.startswith(base + "-") and fn[len(base) + 1:] in file_names:
            with open(os.path.join(d, fn), "rb") as f:
                res.files[fn[len(base) + 1:]] = f.read()
    return res


# ---------------------------------------------------------------------------
# oracle
# ---------------------------------------------------------------------------


def rows_text(rows):
    return "".join(",".join(str(v) for v in row) + "\n" for row in rows).encode()


class Trace:
    """A parsed trace: header line + rows split into (stamp, point, pos)."""

    def __init__(self, name, data, level, where):
        self.name = name
        text = data.decode()
        if text and not text.endswith("\n"):
            raise Violation("row-format", f"trace {name} does not end with a newline: {data!r} -- {where}")
        lines = text.split("\n")[:-1] if text else []
        self.header = lines[0].split(",") if lines else None
        self.rows = []
        n = level + 1
        for ln in lines[1:]:
            cells = ln.split(",")
            try:
                vals = [int(x) for x in cells]
            except ValueError:
                vals = None
            if vals is None or len(vals) != 2 * n + 1:
                raise Violation("row-format", f"trace {name}: row {ln!r} does not consist of {n} stamp, {n} point and "
                                f"one position integer -- {where}")
            self.rows.append((tuple(vals[:n]), tuple(vals[n:2 * n]), vals[-1]))

    def brief(self):
        return [list(s) + list(p) + [q] for s, p, q in self.rows]


def _segments(trace):
    """Rows grouped into maximal runs of equal point prefix: [(prefix, [(coord, pos)])]."""
    out = []
    for _, point, pos in trace.rows:
        pre = list(point[:-1])
        if not out or out[-1][0] != pre:
            out.append((pre, []))
        out[-1][1].append((point[-1], pos))
    return out


def _exact_rows(rows, tolerant, p11):
    """Expected (coord, pos) list; pos None = not asserted."""
    if tolerant and p11:
        return [(c, alt) for c, _, alt in rows]
    return [(c, pos) for c, pos, _ in rows]


def _rows_equal(got, want):
    if len(got) != len(want):
        return False
    for (gc, gp), (wc, wp) in zip(got, want):
        if gc != wc or (wp is not None and gp != wp):
            return False
    return True


def _match_trace(trace, expected, tolerant):
    """expected: [(prefix, ("exact", rows, p11) | ("loose", need))] in execution order, instances
    that expect nothing omitted unless loose.  Returns None when the trace agrees, else a text."""
    segs = _segments(trace)
    si = 0
    for prefix, exp in expected:
        seg = None
        if si < len(segs) and segs[si][0] == prefix:
            seg = segs[si][1]
        if exp[0] == "exact":
            want = _exact_rows(exp[1], tolerant, exp[2])
            if not want:
                if seg is not None:
                    return f"instance {prefix}: no row expected, got {seg}"
                continue
            if seg is None:
                return f"instance {prefix}: rows {want} expected, next rows belong to " \
                       f"{segs[si][0] if si < len(segs) else 'nothing (trace ends)'}"
            if not _rows_equal(seg, want):
                return f"instance {prefix}: expected (coord, fiber_pos) {want}, trace has {seg}"
            si += 1
        else:
            need = exp[1]
            have = {c for c, _ in seg} if seg is not None else set()
            if not need <= have:
                return f"instance {prefix} (inserting populate): coordinates {sorted(need - have)} have no row " \
                       f"(rows {seg})"
            if seg is not None:
                si += 1
    if si != len(segs):
        return f"rows {segs[si][1]} with point prefix {segs[si][0]} belong to no loop instance expected here"
    return None


def _lin(prog, level, c):
    """The trace column of a coordinate of loop level `level`: tuple coordinates of a flattened rank
    appear as one integer (row-major within the associated shape)."""
    shape = getattr(prog, "flat", {}).get(prog.order[level]) if isinstance(c, tuple) else None
    return c if shape is None else linearise(c, shape)


def _lin_prefix(prog, prefix):
    return [_lin(prog, lv, c) for lv, c in enumerate(prefix)]


def check_session(prog, ses, cfg, rec, where):
    """Everything that is asserted about the traces of the main session."""
    order = prog.order
    # -- the model's account of every loop instance
    insts = []
    for entry in ses.log:
        try:
            inst = model_instance(entry)
        except ModelMismatch as e:
            raise Violation("bodies", f"{e}; loop instance {entry} -- {where}")
        if inst.bodies != entry["bodies"]:
            raise Violation("bodies", f"loop at rank {entry['rank']} prefix {entry['prefix']} ran bodies "
                            f"{entry['bodies']}, the co-iteration of {entry['fibers']} "
                            f"(expression {entry['expr']}) should give {inst.bodies} -- {where}")
        insts.append(inst)
    entered = {e["level"] for e in ses.log}
    if ses.loop_order != order[:max(list(entered) + [cfg["preregister"] - 1]) + 1]:
        raise Violation("loop-order", f"Metrics.loop_order is {ses.loop_order} after a nest with loop order {order} "
                        f"(levels entered {sorted(entered)}, {cfg['preregister']} registered up front) -- {where}")

    traces = {}
    for r in prog.traced:
        level = prog.levels[r]
        started = level in entered or level < cfg["preregister"]
        header = [x + "_pos" for x in order[:level + 1]] + order[:level + 1] + ["fiber_pos"]
        for ty in trace_types():
            name = f"{r}-{ty}.csv"
            if name not in ses.files:
                raise Violation("trace-file-missing", f"no trace file {name} after endCollect -- {where}")
            data = ses.files[name]
            cons = ses.consumed.get((r, ty), [])
            if rows_text(cons) != data:
                raise Violation("file-vs-consumable", f"trace {name}: file {data!r} differs from the consumable rows "
                                f"{cons} -- {where}")
            tr = Trace(name, data, level, where)
            if not started:
                if data:
                    raise Violation("header", f"trace {name} of a rank that was never entered holds {data!r} -- {where}")
            elif tr.header != header:
                raise Violation("header", f"trace {name} starts with {tr.header}, expected {header} (loop order "
                                f"{order}) -- {where}")
            _check_stamp_order(name, tr, ty == "iter", where)
            traces[(r, ty)] = tr

    # -- the stamp columns of the enclosing loop ranks are the stamp of the enclosing body (the
    #    <rank>_pos columns name the iteration of that rank the row belongs to)
    body_stamp = [{point: stamp for stamp, point, _ in traces[(order[lv], "iter")].rows} for lv in range(len(order))]
    dense_levels = {e["level"] for e in ses.log if e.get("dense")}
    for (r, ty), tr in traces.items():
        level = prog.levels[r]
        if level == 0:
            continue
        for stamp, point, pos in tr.rows:
            outer = body_stamp[level - 1].get(point[:-1])
            if outer is None and (level - 1) in dense_levels:
                continue        # a dense by-reference walk writes no iter row of its own
            if outer is None or stamp[:-1] != outer:
                raise Violation("stamp-prefix", f"trace {r}-{ty}.csv: row stamp={list(stamp)} point={list(point)} "
                                f"fiber_pos={pos}: the enclosing body at {list(point[:-1])} "
                                f"{'carries the stamp ' + str(list(outer)) if outer is not None else 'has no iter row'} "
                                f"in {order[level - 1]}-iter.csv -- {where}")

    # -- iter: one row per body
    for r in prog.traced:
        if prog.levels[r] in dense_levels and r in order:
            # dense by-reference walk (iter*ShapeRef): the iterator reports its coordinate to Metrics but
            # reads no element, so the rows of its own iter trace are not asserted (format and stamp order
            # are); the rows of the ranks below must carry its coordinate (prefix check of every trace)
            continue
        exp = [(_lin_prefix(prog, i.entry["prefix"]),
                ("exact", [(_lin(prog, i.entry["level"], c), p, p) for c, p in i.iter_rows], False))
               for i in insts if i.entry["rank"] == r]
        msg = _match_trace(traces[(r, "iter")], exp, False)
        if msg:
            raise Violation("iter-rows", f"trace {r}-iter.csv: {msg}; all rows [stamp.., point.., fiber_pos] = "
                            f"{traces[(r, 'iter')].brief()} -- {where}")

    # -- labelled traces: roles of a rank <-> labels, by bijection
    used_p11 = False
    for r in prog.traced:
        keys = []
        for i in insts:
            for k, role in i.roles.items():
                if role.rank == r and k not in keys:
                    keys.append(k)
        fam_of = {}
        for i in insts:
            for k, role in i.roles.items():
                if role.rank == r:
                    fam_of[k] = role.family

        def expected(key, attr):
            out = []
            for i in insts:
                role = i.roles.get(key)
                if role is None or role.rank != r:
                    # an instance whose loop has no such role expects no rows
                    continue
                pre = _lin_prefix(prog, i.entry["prefix"])
                if role.loose is not None:
                    out.append((pre, ("loose", role.loose["read" if attr == "rows" else "write"])))
                else:
                    out.append((pre, ("exact", getattr(role, attr), role.p11)))
            return out

        def compat(key, label, tolerant):
            fam = fam_of[key]
            if fam == "dest":
                return (_match_trace(traces[(r, f"populate_read_{label}")], expected(key, "rows"), tolerant)
                        or _match_trace(traces[(r, f"populate_write_{label}")], expected(key, "wrows"), tolerant))
            return _match_trace(traces[(r, f"{fam}_{label}")], expected(key, "rows"), tolerant)

        def nonempty(fam, label):
            if fam == "dest":
                return bool(traces[(r, f"populate_read_{label}")].rows or traces[(r, f"populate_write_{label}")].rows)
            return bool(traces[(r, f"{fam}_{label}")].rows)

        for fam in ["intersect", "populate", "dest", "project"]:
            fkeys = [k for k in keys if fam_of[k] == fam]
            result = None
            strict_tab = {(k, lab): compat(k, lab, False) for k in fkeys for lab in range(NLABELS)}
            for tolerant in (False, True):
                # second pass: a (role, label) pair may also agree under P11's reading of fiber_pos
                table = strict_tab if not tolerant else {kl: (None if msg is None else compat(kl[0], kl[1], True))
                                                         for kl, msg in strict_tab.items()}
                for perm in itertools.permutations(range(NLABELS), len(fkeys)):
                    if all(table[(k, lab)] is None for k, lab in zip(fkeys, perm)) and \
                            not any(nonempty(fam, lab) for lab in range(NLABELS) if lab not in perm):
                        result = (tolerant, perm)
                        break
                if result:
                    break
            names = (["populate_read", "populate_write"] if fam == "dest" else [fam])
            shown = {f"{n}_{lab}": traces[(r, f"{n}_{lab}")].brief() for n in names for lab in range(NLABELS)
                     if traces[(r, f"{n}_{lab}")].rows}
            if result is None:
                why = {k: {lab: strict_tab[(k, lab)] for lab in range(NLABELS) if nonempty(fam, lab)} for k in fkeys}
                exp = {k: ([(p, e[0], _exact_rows(e[1], False, False) if e[0] == "exact" else sorted(e[1]))
                            for p, e in expected(k, "rows")] +
                           ([("writes:",)] + [(p, e[0], _exact_rows(e[1], False, False) if e[0] == "exact"
                                               else sorted(e[1])) for p, e in expected(k, "wrows")]
                            if fam == "dest" else []))
                       for k in fkeys}
                raise Violation("rows", f"rank {r}: the {fam} traces cannot be mapped onto the roles of the loop. "
                                f"Expected per role (instance prefix, mode, (coord, fiber_pos) rows): {exp}; non-empty "
                                f"traces [stamp.., point.., fiber_pos]: {shown}; mismatches: {why} -- {where}")
            if result[0]:
                # positions agree only when P11's reading (count of non-empty elements delivered so far) is used
                if not findings.is_open(ID, P11):
                    exp = {k: [(p, _exact_rows(e[1], False, False)) for p, e in expected(k, "rows") if e[0] == "exact"]
                           for k in fkeys}
                    raise Violation("position-counts-presented",
                                    f"rank {r}: the fiber_pos column of the {fam} traces is not the index of the "
                                    f"element in the fiber it was read from; it counts the non-empty elements delivered "
                                    f"before it. Expected per role: {exp}; traces: {shown}; stored fibers "
                                    f"{[i.entry['fibers'] for i in insts if i.entry['rank'] in (r, 'M')]} -- {where}")
                used_p11 = True
    if used_p11:
        rec.known(P11)
    return insts, traces


def _check_stamp_order(name, tr, strict, where):
    for (s0, _, _), (s1, _, _) in zip(tr.rows, tr.rows[1:]):
        if s1 < s0 or (strict and s1 == s0):
            raise Violation("stamp-order", f"trace {name}: stamp {list(s1)} follows {list(s0)} "
                            f"({'strictly increasing' if strict else 'non-decreasing'} order required); rows "
                            f"{tr.brief()} -- {where}")


def subset_plan(prog, traces, sub):
    """The (rank, type, how) pairs a subset session registers: `picks` index the traces that held rows in
    the all-registered session (so single-type sessions of traces that matter are common), `extra` names
    arbitrary pairs."""
    order = {ty: n for n, ty in enumerate(trace_types())}
    live = sorted([k for k, t in traces.items() if t.rows], key=lambda k: (prog.traced.index(k[0]), order[k[1]]))
    if not live:
        live = [(prog.traced[-1], "iter")]
    keys = []
    for k in sub["picks"]:
        keys.append(live[k % len(live)])
    for ri, ty in sub.get("extra", []):
        keys.append((prog.traced[ri % len(prog.traced)], ty))
    keys = list(dict.fromkeys(keys))
    hows = {"file": ["file"], "consumable": ["consumable"], "both": ["both"],
            "mixed": ["consumable", "file", "both"]}[sub["how"]]
    return [(r, ty, hows[n % len(hows)]) for n, (r, ty) in enumerate(keys)]


def check_subset(prog, main, traces, insts, ses, plan, where):
    """A session that registered only `plan`: every registered trace must hold what the same trace held
    in the all-registered session -- header, (point, fiber_pos) of every row, and the stamp columns of
    the loop levels whose stamps the library advances independently of the registered traces (all but
    the levels of a populate loop: the populate iterator ticks once more per destination row it
    traces).  Destination rows of an INSERTING populate are excluded (their number and positions depend
    on whether the write trace is registered; they are only checked for order and completeness in the
    all-registered session)."""
    if [e["bodies"] for e in ses.log] != [e["bodies"] for e in main.log]:
        raise Violation("subset-bodies", f"the loop nest ran other bodies when only {plan} were registered: "
                        f"{[(e['rank'], e['prefix'], e['bodies']) for e in ses.log]} instead of "
                        f"{[(e['rank'], e['prefix'], e['bodies']) for e in main.log]} -- {where}")
    pop_levels = {e["level"] for e in main.log if e["z"] is not None}
    inserting = {}
    for i in insts:
        if i.inserting:
            for role in i.roles.values():
                if role.family == "dest":
                    inserting.setdefault(role.rank, set()).add(tuple(_lin_prefix(prog, i.entry["prefix"])))
    for r, ty, how in plan:
        name = f"{r}-{ty}.csv"
        level = prog.levels[r]
        data = None
        if how != "consumable":
            if name not in ses.files:
                raise Violation("trace-file-missing", f"no trace file {name} after a session registering {plan} "
                                f"-- {where}")
            data = ses.files[name]
        if how != "file":
            cons = rows_text(ses.consumed.get((r, ty), []))
            if data is not None and cons != data:
                raise Violation("file-vs-consumable", f"trace {name} (session registering {plan}): file {data!r} "
                                f"differs from the consumable rows {ses.consumed.get((r, ty))} -- {where}")
            data = cons
        tr = Trace(name, data, level, where)
        ref = traces[(r, ty)]
        _check_stamp_order(name, tr, ty == "iter", where)
        fam = ty.rsplit("_", 1)[0]
        skip = inserting.get(r, set()) if fam in ("populate_read", "populate_write") else set()
        keep = [lv for lv in range(level + 1) if lv not in pop_levels]

        def view(t):
            return [([st[lv] for lv in keep], list(pt), pos) for st, pt, pos in t.rows if pt[:-1] not in skip]

        if tr.header != ref.header or view(tr) != view(ref):
            raise Violation("registration-subset",
                            f"trace {name} requested as {how} in a session that registers only "
                            f"{[(a, b, c) for a, b, c in plan]} holds header {tr.header}, rows [stamp.., point.., "
                            f"fiber_pos] {tr.brief()}; with every trace registered the same loop nest gave header "
                            f"{ref.header}, rows {ref.brief()} (compared: header, point and fiber_pos columns, stamp "
                            f"columns of levels {keep}; rows of inserting populates at prefixes "
                            f"{sorted(skip)} excluded) -- {where}")


def check_program(make_prog, cfg, rec, where):
    K.reset_metrics()
    root = tempfile.mkdtemp(prefix="vf-c16-", dir=_TMPFS)
    try:
        ths = cfg["thresholds"]
        prog = make_prog()
        prog._cfg = cfg
        # all sessions of a case share one prefix: each one starts on the files its predecessor left
        prefix = os.path.join(root, "t")
        if cfg.get("stale"):
            stale_session(prog, prefix)
        main = run_session(prog, ths[0], prefix, True, cfg["preregister"], cfg["consume"], cfg.get("reg", "file"))
        insts, traces = check_session(prog, main, cfg, rec, where)
        for n, th in enumerate(ths[1:], 1):
            other = run_session(make_prog(), th, prefix, False, cfg["preregister"], cfg["consume"])
            if other.files != main.files:
                diff = {k: (main.files.get(k), other.files.get(k))
                        for k in sorted(set(main.files) | set(other.files)) if main.files.get(k) != other.files.get(k)}
                raise Violation("flush-threshold", f"trace files written with setNumCachedUses({ths[0]}) and ({th}) "
                                f"differ: {diff} -- {where}")
        for n, sub in enumerate(cfg.get("subsets", [])):
            plan = subset_plan(prog, traces, sub)
            ses = run_session(make_prog(), ths[(n + 1) % len(ths)], prefix, plan, cfg["preregister"],
                              cfg["consume"], cfg.get("reg", "file"))
            check_subset(prog, main, traces, insts, ses, plan, where)
            prog._subset_plans = getattr(prog, "_subset_plans", []) + [plan]
    finally:
        shutil.rmtree(root, ignore_errors=True)
    return prog, main, insts, traces


def classify(rec, prog, ses, insts, traces, prefix_cls=""):
    nlev = len({e["level"] for e in ses.log})
    inserting = any(i.inserting for i in insts)
    explicit = any(not pres for e in ses.log for snap in e["fibers"].values() for _, pres in snap)
    maxlines = max([len(t.rows) + (1 if t.header else 0) for t in traces.values()] + [0])
    nonempty = {ty.rsplit("_", 1)[0] for (r, ty), t in traces.items() if t.rows}
    rec.cls(f"levels{min(nlev, 3)}{'+' if nlev > 3 else ''}")
    rec.cls("inserting-populate", inserting)
    rec.cls("stored-empty-element", explicit)
    rec.cls("p11-position-shift", any(pos is not None and pos != alt for i in insts for role in i.roles.values()
                                      if role.p11 for _, pos, alt in role.rows))
    rec.cls("lines>3", maxlines > 3)
    rec.cls("lines>5", maxlines > 5)
    for fam in ["iter"] + FAMILIES:
        rec.cls("rows-" + fam, fam in nonempty)
    pcfg = getattr(prog, "_cfg", {})
    unreached = len({e["level"] for e in ses.log}) < len(prog.order) and \
        max(e["level"] for e in ses.log) + 1 >= pcfg.get("preregister", 0)
    plans = getattr(prog, "_subset_plans", [])
    rec.cls("subset-session-single-trace", any(len(pl) == 1 for pl in plans))
    rec.cls("subset-session-consumable-only-trace", any(how == "consumable" for pl in plans for _, _, how in pl))
    rec.cls("subset-session-outer-rank-untraced",
            any({prog.levels[r] for r, _, _ in pl} and min(prog.levels[r] for r, _, _ in pl) > 0 and
                any(traces[(r, ty)].rows for r, ty, _ in pl) for pl in plans))
    rec.cls("subset-session-dest-read-without-write",
            any(any(ty.startswith("populate_read_") and traces[(r, ty)].rows for r, ty, _ in pl) and
                not any(ty.startswith("populate_write_") for _, ty, _ in pl) for pl in plans))
    rec.cls("stale-files-under-prefix", bool(pcfg.get("stale")))
    rec.cls("stale-files+unreached-rank+consumable-first",
            bool(pcfg.get("stale")) and unreached and pcfg.get("reg") in ("consumable", "mixed"))
    rec.cls("empty-loop-instance", any(not e["bodies"] for e in ses.log))
    rec.cls("never-entered-rank", len({e["level"] for e in ses.log}) < len(prog.order))
    rec.cls("head-left-under-finger", any(len(role.rows) > len(i.bodies) for i in insts for role in i.roles.values()
                                          if role.family == "intersect"))
    rec.cls("created-then-removed", any(o[1] is False for e in ses.log for o in e["outcomes"]))
    rec.cls("dest-read-row", any(role.rows for i in insts for role in i.roles.values() if role.family == "dest"))
    rec.nontrivial(nlev >= 2 and (inserting or explicit) and maxlines > 3)


# ---------------------------------------------------------------------------
# part 1: kernels
# ---------------------------------------------------------------------------


@st.composite
def subset_specs(draw):
    picks = [draw(st.sampled_from(list(range(12)))) for _ in range(draw(st.sampled_from([1, 1, 2, 3])))]
    extra = [[draw(st.sampled_from([0, 1, 2, 3])), draw(st.sampled_from(trace_types()))]
             for _ in range(draw(st.sampled_from([0, 0, 1, 2])))]
    return {"picks": picks, "extra": extra, "how": draw(st.sampled_from(["file", "consumable", "mixed", "both"]))}


@st.composite
def configs(draw, nranks, noprereg_last=False):
    ths = list(draw(st.permutations(THRESHOLDS)))
    top = nranks - (1 if noprereg_last else 0)
    return {"thresholds": ths,
            "preregister": draw(st.sampled_from([0, 0, 0] + list(range(1, top + 1)))),
            "consume": draw(st.sampled_from(["end", "outer"])),
            "stale": draw(st.sampled_from([True, True, False])),
            "reg": draw(st.sampled_from(["consumable", "file", "mixed"])),
            "subsets": [draw(subset_specs()) for _ in range(draw(st.sampled_from([1, 2, 1])))]}


@st.composite
def kernel_cases(draw):
    spec = draw(K.kernel_specs(max_shape=5, floats=False, out_odds=(3, 2)))
    if len(spec["order"]) == 1 and draw(st.sampled_from([True, True, False])):
        # Hypothesis favours the smallest nest; give multi-level nests a second chance
        spec = draw(K.kernel_specs(max_shape=5, floats=False, out_odds=(3, 2)))
    if spec["out"] and draw(st.sampled_from([True, False])):
        # reduction ranks outermost: every output fiber is revisited, so later visits insert
        # below the coordinates stored by earlier ones
        red = [r for r in spec["order"] if K.base_var(r) not in spec["out"]]
        spec = K.variant(spec, order=red + [r for r in spec["order"] if r not in red])
    return {"kernel": spec, "cfg": draw(configs(len(spec["order"])))}


def describe_kernel(spec, cfg):
    ops = ", ".join("ABC"[i] + "[" + ",".join(o["rank_ids"]) + "]=" + str(o["tree"])
                    for i, o in enumerate(spec["operands"]))
    return (f"Z[{','.join(spec['out'])}] = {ops}; order={spec['order']} tile={spec['tile']} style={spec['style']}; "
            f"cfg={cfg}")


def check_kernel(case, rec):
    spec, cfg = case["kernel"], case["cfg"]
    where = describe_kernel(spec, cfg)
    prog, ses, insts, traces = check_program(lambda: KernelProgram(spec), cfg, rec, where)
    classify(rec, prog, ses, insts, traces)
    rec.cls("style-" + spec["style"])
    rec.cls("tiled", bool(spec["tile"]))
    rec.cls("holders>=3", any(len(e["fibers"]) >= 3 for e in ses.log))


# ---------------------------------------------------------------------------
# part 2: single-operator nests
# ---------------------------------------------------------------------------

_VALS = [1, -1, 2, 1, -1, 3, 0, 0]       # ~25 % explicit zeros


@st.composite
def leaf_elems(draw, shape, p_empty=10):
    """[[coord, value], ...] with explicit zeros; sometimes no element at all.
    (flags and masks come from sampled_from: Hypothesis' integers() favours the interval ends)"""
    if draw(st.sampled_from([True] + [False] * (p_empty - 1))):
        return []
    masks = list(range(2 ** shape - 1, 0, -1))
    masks += [m for m in masks if bin(m).count("1") * 2 > shape]        # favour well filled fibers
    mask = draw(st.sampled_from(masks))
    return [[c, draw(st.sampled_from(_VALS))] for c in range(shape) if (mask >> c) & 1]


@st.composite
def opnest_cases(draw):
    op = draw(st.sampled_from(OPS + ["project", "project", "lshift", "iter_range"]))
    S = draw(st.sampled_from([2, 3, 4, 4, 5, 6]))
    outer = None
    dense = None
    kind = draw(st.sampled_from(["sparse", "dense", "sparse", "none", "dense"]))
    if kind != "none":
        n = draw(st.sampled_from([2, 3, 4, 1]))
        outer = [[x, draw(st.sampled_from([1, 1, 1, 0]))] for x in range(n) if draw(st.sampled_from([True, True, False]))]
    if kind == "dense":
        mode = draw(st.sampled_from(["shape", "active", "range"]))
        lo = draw(st.sampled_from(list(range(n))))
        hi = draw(st.sampled_from(list(range(lo + 1, n + 1))))
        dense = {"mode": mode, "n": n, "lo": lo, "hi": hi, "step": draw(st.sampled_from([1, 1, 2])),
                 "z_outer": draw(st.sampled_from([True, False])), "byval": draw(st.sampled_from([False, True]))}
        ninst = len(dense_coords(dense))
    else:
        ninst = len([1 for _, v in outer if v != 0]) if outer is not None else 1
    proj = None
    zshape = S
    if "project" in op:
        mul = draw(st.sampled_from([1, 1, 2]))
        off = draw(st.sampled_from([0, 1, 2, 3]))
        zshape = mul * (S - 1) + off + 1
        interval = None
        if draw(st.sampled_from([True, False])):
            lo = draw(st.integers(0, zshape - 1))
            hi = draw(st.integers(lo + 1, zshape + 1))
            interval = [lo, hi]
        proj = {"mul": mul, "off": off, "interval": interval, "start": None}
    insts = []
    for _ in range(ninst):
        a = draw(leaf_elems(S))
        inst = {"a": a}
        if op in ("and", "lf", "lshift_and", "lshift_lf"):
            inst["b"] = draw(leaf_elems(S))
        if op.startswith("lshift"):
            inst["plan"] = [[draw(st.sampled_from(["add", "add", "assign", "leave", "zero"])),
                             draw(st.sampled_from([1, -1, 2]))] for _ in range(zshape)]
        insts.append(inst)
    if proj is not None and ninst and draw(st.sampled_from([True, False])):
        # a legal start_pos for every instance: below every stored length, skipping only elements
        # whose image lies below the interval (none may be skipped without an interval unless
        # start_pos is what the caller wants: then the earlier elements are simply not visited)
        limit = None
        for inst in insts:
            coords = [c for c, _ in inst["a"]]
            if proj["interval"] is None:
                lim = len(coords) - 1
            else:
                lim = min(len([c for c in coords if proj["mul"] * c + proj["off"] < proj["interval"][0]]),
                          len(coords) - 1)
            limit = lim if limit is None else min(limit, lim)
        if limit is not None and limit >= 0:
            proj["start"] = draw(st.integers(0, limit))
    nest = {"op": op, "shape": S, "outer": outer, "inst": insts, "proj": proj}
    if op == "iter_range":
        form = draw(st.sampled_from(["active", "range", "occ_start", "range_start", "active", "range"]))
        lo = draw(st.sampled_from(list(range(S))))
        hi = draw(st.sampled_from(list(range(lo + 1, S + 1))))
        if form in ("range", "range_start"):
            # an open end on either side is legal for iterRange
            lo = draw(st.sampled_from([lo, lo, None]))
            hi = draw(st.sampled_from([hi, hi, None]))
        if form == "occ_start":
            lo = hi = None
        start = None
        if form in ("occ_start", "range_start"):
            # a start position that is legal in every instance: inside the stored elements, skipping only
            # coordinates below the range
            limit = None
            for inst in insts:
                coords = [c for c, _ in inst["a"]]
                lim = len(coords) - 1
                if lo is not None:
                    lim = min(lim, len([c for c in coords if c < lo]))
                limit = lim if limit is None else min(limit, lim)
            if limit is not None and limit >= 0:
                # (the furthest legal start is the interesting one: positions counted from there would be wrong)
                start = draw(st.sampled_from([limit, limit] + list(range(limit + 1))))
            else:
                form = "range"
        nest["rng"] = {"form": form, "lo": lo, "hi": hi, "start": start}
    if dense is not None:
        nest["dense"] = dense
    if op in ("and", "lshift_and") and draw(st.sampled_from([False, True])):
        nest["u_fmt"] = {"side": draw(st.sampled_from(["a", "b"])),
                         "shape": draw(st.sampled_from([S, max(1, S - 1), max(1, S - 2), max(1, S - 2), 1]))}
    if op.startswith("lshift"):
        nest["z"] = draw(leaf_elems(zshape, p_empty=3))
        nest["z_shared"] = draw(st.sampled_from([True, True, False]))
        if draw(st.sampled_from([False, True, False])):
            nest["z_fmt"] = "U"
    nranks = (1 if outer is not None else 0) + 1
    return {"nest": nest, "cfg": draw(configs(nranks, noprereg_last=proj is not None))}


def check_opnest(case, rec):
    nest, cfg = case["nest"], case["cfg"]
    where = f"nest={nest}; cfg={cfg}"
    prog, ses, insts, traces = check_program(lambda: OpProgram(nest), cfg, rec, where)
    classify(rec, prog, ses, insts, traces)
    rec.cls("op-" + nest["op"])
    if nest.get("rng"):
        g = nest["rng"]
        rec.cls("range-" + g["form"])
        rec.cls("range-skips-stored-elements", any(i.iter_rows and i.iter_rows[0][1] > 0 for i in insts
                                                    if i.entry["expr"][0] == "range"))
    rec.cls("outer-loop", nest["outer"] is not None)
    dn = nest.get("dense")
    rec.cls("dense-ref-outer-loop", dn is not None)
    if dn is not None:
        rec.cls("dense-" + dn["mode"])
        rec.cls("dense-walk-of-the-output", prog.zout is not None)
        rec.cls("dense-by-value", bool(dn.get("byval")) and prog.zout is None)
        rec.cls("dense-inner-rows-at-nonzero-outer-coordinate",
                any(t.rows and any(pt[0] != 0 for _, pt, _ in t.rows) for (r, ty), t in traces.items()
                    if prog.levels[r] == 1))
    rec.cls("dest-prepopulated", bool(nest.get("z")))
    ushaped = nest.get("z_fmt") == "U" and any(
        e["z"] is not None and e["z"]["coords"] and e["bodies"] and e["bodies"][0] < e["z"]["coords"][-1]
        for e in ses.log)
    rec.cls("dest-uncompressed", nest.get("z_fmt") == "U")
    rec.cls("and-operand-uncompressed", bool(nest.get("u_fmt")))
    rec.cls("and-operand-uncompressed-and-shorter", bool(nest.get("u_fmt")) and nest["u_fmt"]["shape"] < nest["shape"])
    rec.cls("dest-uncompressed-insert-in-place", ushaped)
    rec.cls("project-start_pos", bool(nest["proj"]) and nest["proj"]["start"] is not None)
    rec.cls("project-interval", bool(nest["proj"]) and nest["proj"]["interval"] is not None)


@st.composite
def flat_cases(draw):
    op = draw(st.sampled_from(["iter", "and", "lshift", "lf", "lshift_and", "lshift_lf", "iter", "lshift"]))
    S = draw(st.sampled_from([2, 3, 4, 5]))
    depth = draw(st.sampled_from([0, 0, 1]))
    shape = ([draw(st.sampled_from([2, 3]))] if depth else []) + [draw(st.sampled_from([2, 3, 4])),
                                                                  draw(st.sampled_from([2, 3]))]
    tree = draw(K.operand_trees(shape + [S], floats=False))
    insts = []
    for _ in range(draw(st.sampled_from([1, 2, 3]))):
        inst = {}
        if op in ("and", "lf", "lshift_and", "lshift_lf"):
            inst["b"] = draw(leaf_elems(S))
        if op.startswith("lshift"):
            inst["plan"] = [[draw(st.sampled_from(["add", "add", "assign", "leave", "zero"])),
                             draw(st.sampled_from([1, -1, 2]))] for _ in range(S)]
        insts.append(inst)
    nest = {"op": op, "shape": S, "flat": {"depth": depth, "shape": shape, "tree": tree}, "inst": insts}
    if op.startswith("lshift"):
        nest["z"] = draw(leaf_elems(S, p_empty=3))
        nest["z_shared"] = draw(st.sampled_from([True, True, False]))
    return {"nest": nest, "cfg": draw(configs(depth + 2))}


def check_flat(case, rec):
    nest, cfg = case["nest"], case["cfg"]
    where = f"flattened nest={nest}; cfg={cfg}"
    prog, ses, insts, traces = check_program(lambda: FlatProgram(nest), cfg, rec, where)
    classify(rec, prog, ses, insts, traces)
    rec.cls("op-" + nest["op"])
    rec.cls("flattened-rank-in-the-middle", nest["flat"]["depth"] == 1)
    mk = prog.levels["MK"]
    rec.cls("inner-rows-below-tuple-coordinate",
            any(t.rows for (r, ty), t in traces.items() if prog.levels[r] > mk))
    rec.cls("distinct-tuples>=2", len({tuple(t) for e in ses.log if e["rank"] == "MK" for t in e["bodies"]}) >= 2)


def _small_fibers(states):
    """every 1-level fiber over shape 3 whose coordinates are absent / hold one of `states`"""
    out = []
    for combo in itertools.product([None] + list(states), repeat=3):
        out.append([[c, v] for c, v in enumerate(combo) if v is not None])
    return out


def enumerate_small(tier):
    """Finite sub-domain run completely: one operator, no outer loop, shape 3, every placement of
    absent / explicit zero / non-zero elements in both operands."""
    ths = [2, 1000] if tier == "quick" else [2, 3, 5, 1000]
    # after the all-registered session: one single-trace session per trace that held rows (file form and
    # consumable-only form alternate)
    def cfg_for(op):
        n = 3 if op != "lshift" else 4
        return {"thresholds": ths, "preregister": 0, "consume": "end",
                "subsets": [{"picks": [k], "extra": [], "how": ["file", "consumable"][k % 2]} for k in range(n)]}

    src = _small_fibers([0, 1])
    for op in (["and", "lshift"] if tier == "quick" else ["and", "lf", "lshift"]):
        for a in src:
            if op == "lshift":
                # destination: absent / explicit zero / -1 (the body adds 1: -1 becomes the default and is removed)
                for z in _small_fibers([0, -1]):
                    yield {"nest": {"op": op, "shape": 3, "outer": None, "proj": None, "z": z, "z_shared": True,
                                    "inst": [{"a": a, "plan": [["add", 1]] * 3}]}, "cfg": cfg_for(op)}
                    # the same with the destination rank declared uncompressed (quick: only where the populate
                    # inserts below the destination's stored maximum, i.e. where the format matters)
                    first = [c for c, v in a if v != 0][:1]
                    if tier != "quick" or (first and z and first[0] < z[-1][0]):
                        yield {"nest": {"op": op, "shape": 3, "outer": None, "proj": None, "z": z, "z_shared": True,
                                        "z_fmt": "U", "inst": [{"a": a, "plan": [["add", 1]] * 3}]},
                               "cfg": cfg_for(op)}
            else:
                for b in src:
                    yield {"nest": {"op": op, "shape": 3, "outer": None, "proj": None,
                                    "inst": [{"a": a, "b": b}]}, "cfg": cfg_for(op)}
                    # one operand in a rank declared uncompressed, as long as the other one or shorter (quick: a
                    # third of the pairs)
                    if op == "and" and (tier != "quick" or (len(a) + 2 * len(b)) % 3 == 0):
                        for side in ("a", "b"):
                            for su in (3, 2, 1):
                                yield {"nest": {"op": op, "shape": 3, "outer": None, "proj": None,
                                                "u_fmt": {"side": side, "shape": su},
                                                "inst": [{"a": a, "b": b}]}, "cfg": cfg_for(op)}


PARTS = [Part("kernels", kernel_cases(), check_kernel, n_quick=500, n_thorough=5000),
         Part("opnests", opnest_cases(), check_opnest, n_quick=700, n_thorough=6000),
         Part("flattened", flat_cases(), check_flat, n_quick=200, n_thorough=1500),
         Part("small", None, check_opnest, n_quick=0, n_thorough=0, enumerate=enumerate_small,
              exhaustive_note="(a & b also with either operand in a rank declared uncompressed of shape 3, 2, 1 -- quick: "
                              "for a third of the pairs) "
                              "a & b and z << a (thorough: also leader-follower) over ALL pairs of 1-level fibers of "
                              "shape 3 whose coordinates are absent / explicit zero / non-zero (27 x 27 pairs per "
                              "operator; destination states absent / explicit zero / -1 with body += 1), no outer "
                              "loop, thresholds 2 and 1000 (thorough: all four)")]


def coverage_warnings(rec):
    out = []
    tot = {}
    for k, v in rec.classes.items():
        part = k.split(":", 1)[0]
        if k.split(":", 1)[1].startswith("levels"):
            tot[part] = tot.get(part, 0) + v
    for k, floor in (("kernels:inserting-populate", 0.03), ("kernels:stored-empty-element", 0.2),
                     ("kernels:rows-intersect", 0.3), ("kernels:rows-populate_write", 0.2),
                     ("kernels:lines>5", 0.12), ("kernels:head-left-under-finger", 0.15),
                     ("opnests:inserting-populate", 0.06), ("opnests:rows-project", 0.08),
                     ("opnests:rows-populate_read", 0.1), ("opnests:stored-empty-element", 0.3),
                     ("opnests:created-then-removed", 0.05)):
        n = max(1, tot.get(k.split(":", 1)[0], 0))
        if rec.classes.get(k, 0) / n < floor:
            out.append(f"{k} only {rec.classes.get(k, 0)}/{n}")
    return out


# ---------------------------------------------------------------------------
# pinned reproducers
# ---------------------------------------------------------------------------


def _pin_p11():
    """a = [0 -> 0 (explicit), 1 -> 5, 3 -> 6], b = [1 -> 1, 3 -> 2]; the elements of a that
    `a & b` reads sit at positions 1 and 2 of a (the plain iter trace of a says so too)."""
    K.reset_metrics()
    a = _leaf_tensor("K", 5, [[0, 0], [1, 5], [3, 6]], "A").getRoot()
    b = _leaf_tensor("K", 5, [[1, 1], [3, 2]], "B").getRoot()
    z = _leaf_tensor("K", 5, [], "Z").getRoot()
    want = [a.coords.index(c) for c in (1, 3)]
    got = {}
    for name, ty, mk in (("a & b", "intersect_0", lambda: a & b), ("z << a", "populate_1", lambda: z << a)):
        Metrics.beginCollect()
        try:
            Metrics.trace("K", type_=ty, consumable=True)
            for _ in mk():
                pass
            rows = Metrics.consumeTrace("K", ty)
        finally:
            Metrics.endCollect()
        got[name] = [row[-1] for row in rows[1:]]
    bad = {k: v for k, v in got.items() if v != want}
    if bad:
        return (f"a stores coords {a.coords} (0 -> explicit zero); the elements 1 and 3 sit at positions {want}, the "
                f"source-side traces report {bad}")
    return None


def _pin_p36():
    """an outer by-value dense walk (iterShape) over X with a traced rank K below: the K rows written under
    X=2 carry X=2"""
    K.reset_metrics()
    t = Tensor.fromUncompressed(["X", "K"], [[1, 2], [0, 0], [3, 4]])
    Metrics.beginCollect()
    try:
        Metrics.trace("K", type_="iter", consumable=True)
        for x, sub in t.getRoot().iterShape():
            for _ in sub:
                pass
        rows = Metrics.consumeTrace("K", "iter")
    finally:
        Metrics.endCollect()
    xs = [row[2] for row in rows[1:]]
    return None if xs == [0, 0, 2, 2] else f"K-iter rows under an iterShape() walk of X carry X = {xs}, expected [0, 0, 2, 2]"


PINNED = {P11: _pin_p11, "P36-byvalue-dense-walk-stale-point": _pin_p36}
