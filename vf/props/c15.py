"""C15 -- metrics collection is transparent, exact and session-isolated."""

import os
import shutil
import tempfile

from hypothesis import strategies as st

from fibertree import Metrics
from fibertree.model import Compute

from .. import kernels as K
from .. import observe
from ..core import Part, Violation

ID = "C15"
RULE = ("A case is a kernel spec of the C06 family (vf/kernels.py: 1-3 operands over 1-3 index variables, any "
        "loop order, optional uniform tiling, nested / flat two-finger or leader-follower intersection; operands "
        "with negatives, explicit zeros, empty sub-fibers), a Metrics configuration (any subset of loop ranks x "
        "trace types iter / intersect_0-3 / populate_1 / populate_read_0 / populate_write_0 registered as file, "
        "consumable or both; 0-n loop ranks registered explicitly up front; flush threshold 2,3,5,1000 or "
        "inherited; consumable traces drained at the end or after every outermost body) and a pre-history of 0-3 "
        "earlier complete sessions (other kernels with their own traces, Metrics.matchRanks / associateShape on "
        "rank names of the main kernel, other setNumCachedUses values). The kernel runs (1) with collection off, "
        "(2) in a session, (3) after the pre-history in a second session. Oracle: content and stored tree of Z, "
        "the operands' stored trees and the interpreter's own body/operation counts are identical on vs off; "
        "Metrics.dump() == {'Compute': {payload_mul, payload_add, payload_update}} with exactly the "
        "interpreter's own counts (multiplications done; += executed on a non-zero box; += executed), also "
        "through Compute.numOps; Compute.numIters(<rank>-iter.csv) and the consumable iter rows == loop bodies "
        "the interpreter executed at that rank; consumable rows == file rows; runs (2) and (3) give identical "
        "dump, loop order, consumable rows and byte-identical trace files. Non-trivial: >= 1 accumulation onto a "
        "non-zero box, >= 2 traced loop ranks, non-empty pre-history. Distinct = SHA-1 of the generated case.")
ASSUMPTIONS = ["operands and the output are built / tiled / swizzled before Metrics.beginCollect; only the loop nest "
               "runs inside a session (getPayloadRef asserts rank registration while collecting)",
               "the output tensor is created with its shape (the populate operator asserts an authoritative shape "
               "when it inserts into a non-empty compressed fiber while collecting)",
               "explicit Metrics.registerRank calls follow the loop order (a prefix of it)",
               "Metrics.matchRanks in the pre-history never matches two loop ranks of the kernel of that same "
               "session (matching two loop levels is not a meaningful use)",
               "every session uses its own file prefix; earlier sessions ended normally and drained their "
               "consumable traces",
               "a kernel that executed no payload operation may report no 'Compute' line at all (counts are then "
               "read as 0)",
               "the harness restores the import-time values of the Metrics class attributes at the start of "
               "every case (so a case replays alone); between the sessions of a case nothing is reset by the "
               "harness"]

TRACE_TYPES = ["iter", "iter", "iter", "intersect_0", "intersect_1", "intersect_2", "intersect_3",
               "populate_1", "populate_read_0", "populate_write_0"]
MODES = ["file", "file", "both", "consumable"]
NAME_POOL = ["M", "K", "N", "M.1", "M.0", "K.1", "K.0", "N.1", "N.0", "X"]
_NO_YES = [False, True]
_RARE = [False] * 7 + [True]


@st.composite
def metrics_cfgs(draw, ranks, history=False):
    traces = []
    for r in ranks:
        if draw(st.sampled_from([True, True, True, False])):
            types = draw(st.lists(st.sampled_from(TRACE_TYPES), min_size=1, max_size=3, unique=True))
            for ty in types:
                traces.append([r, ty, draw(st.sampled_from(MODES))])
    if draw(st.sampled_from(_RARE)):
        traces.append(["X", "iter", draw(st.sampled_from(MODES))])      # a rank no loop ever visits
    cfg = {"traces": traces,
           "preregister": draw(st.sampled_from([0, 0, 0] + list(range(1, len(ranks) + 1)))),
           "num_cached_uses": draw(st.sampled_from([None, 2, 3, 5, 1000] if not history else [2, 3, 7, None, 1000])),
           "consume": draw(st.sampled_from(["end", "outer"]))}
    return cfg


@st.composite
def history_sessions(draw, main_ranks):
    spec = draw(K.kernel_specs(max_vars=2, max_ops=2, max_shape=3))
    cfg = draw(metrics_cfgs(spec["order"], history=True))
    mine = set(spec["order"])
    pool = list(dict.fromkeys(list(main_ranks) + NAME_POOL))
    # matchRanks is transitive: never let one group of matched names hold two loop ranks of this
    # session's own kernel (matching two loop levels is not a meaningful use)
    match = []
    group = {n: {n} for n in pool}
    for _ in range(draw(st.sampled_from([1, 0, 2]))):
        a = draw(st.sampled_from(pool))
        others = [b for b in pool if b not in group[a] and len((group[a] | group[b]) & mine) <= 1]
        if others:
            b = draw(st.sampled_from(others))
            match.append([a, b])
            merged = group[a] | group[b]
            for n in merged:
                group[n] = merged
    cfg["match"] = match
    cfg["assoc"] = [[draw(st.sampled_from(pool)), [draw(st.integers(1, 4)), draw(st.integers(1, 4))]]
                    for _ in range(draw(st.sampled_from([0, 1])))]
    # now and then the earlier session is given up: its in-memory traces are never consumed, endCollect() says so
    # (its documented assertion) and the caller simply begins the next session
    return {"kernel": spec, "metrics": cfg, "abandon": draw(st.sampled_from([False, False, False, False, True]))}


@st.composite
def cases(draw):
    spec = draw(K.kernel_specs(out_odds=(1, 2)))
    cfg = draw(metrics_cfgs(spec["order"]))
    nh = draw(st.sampled_from([1, 2, 0, 1, 3]))
    hist = [draw(history_sessions(spec["order"])) for _ in range(nh)]
    return {"kernel": spec, "metrics": cfg, "history": hist, "reuse_prefix": draw(st.booleans())}


def describe(spec, cfg):
    ops = ", ".join("ABC"[i] + "[" + ",".join(o["rank_ids"]) + "]=" + str(o["tree"])
                    for i, o in enumerate(spec["operands"]))
    return (f"Z[{','.join(spec['out'])}] = {ops}; order={spec['order']} tile={spec['tile']} style={spec['style']}; "
            f"metrics={cfg}")


def trees_of(prep):
    return [observe.tree_of(t.getRoot()) for t in prep.operands]


def z_tree(prep):
    z = prep.out
    if not z.getRankIds():
        return K.Payload.get(z.getRoot())
    return observe.tree_of(z.getRoot())


def rows_text(rows):
    return "".join(",".join(str(v) for v in row) + "\n" for row in rows).encode()


def own_ops(counts):
    return {"payload_mul": counts.mul, "payload_add": counts.add, "payload_update": counts.update}


def check_exact(res, spec, cfg, dirpath, base, who, shared_dir=False):
    """dump / traces of one session against the interpreter's own account."""
    where = f"{who}: {describe(spec, cfg)}"
    for label, dump in (("before", res.dump), ("after", res.dump_after)):
        # (other lines / metrics a dump may carry are not the property's business: only the three counts are)
        if not isinstance(dump, dict):
            raise Violation("dump-shape", f"Metrics.dump() {label} endCollect is {dump!r} -- {where}")
        comp = dump.get("Compute", {})
        for name, mine in own_ops(res.counts).items():
            got = comp.get(name, 0)
            if got != mine:
                raise Violation("count-" + name,
                                f"Metrics.dump()['Compute'] {label} endCollect reports {name}={got}, the kernel "
                                f"executed {mine} (dump={dump}, own counts={res.counts.as_dict()}) -- {where}")
            if "Compute" in dump:
                op = name.split("_", 1)[1]
                if Compute.numOps(dump, op) != mine:
                    raise Violation("numOps", f"Compute.numOps(dump, {op!r})={Compute.numOps(dump, op)}, the kernel "
                                    f"executed {mine} -- {where}")
    for r, ty, how in cfg["traces"]:
        bodies = res.counts.bodies.get(r, 0)
        fname = f"{r}-{ty}.csv"
        if how in ("file", "both"):
            if fname not in res.files:
                raise Violation("trace-file-missing", f"no trace file {fname} after endCollect -- {where}")
            if ty == "iter":
                n = Compute.numIters(os.path.join(dirpath, f"{base}-{fname}"))
                if n != bodies:
                    raise Violation("numIters", f"Compute.numIters({fname})={n} but {bodies} loop bodies were executed "
                                    f"at rank {r}; file={res.files[fname]!r} -- {where}")
        if how in ("consumable", "both"):
            rows = res.consumed.get((r, ty), [])
            if ty == "iter" and max(0, len(rows) - 1) != bodies:
                raise Violation("consumable-iters", f"consumable iter trace of {r} has {max(0, len(rows) - 1)} rows, "
                                f"{bodies} loop bodies were executed; rows={rows} -- {where}")
        if how == "both":
            rows = res.consumed.get((r, ty), [])
            if rows_text(rows) != res.files[fname]:
                raise Violation("file-vs-consumable", f"trace {fname}: file {res.files[fname]!r} differs from the "
                                f"consumable rows {rows} -- {where}")
    traced_files = {f"{r}-{ty}.csv" for r, ty, how in cfg["traces"] if how in ("file", "both")}
    stray = set(res.files) - traced_files
    if stray and not shared_dir:
        raise Violation("stray-trace-file", f"session wrote files {sorted(stray)} that were not requested -- {where}")


def session(spec, cfg, root, name, record=False, after_abandoned=False, prep=None):
    d = os.path.join(root, name)
    os.makedirs(d, exist_ok=True)
    prep = prep or K.prepare(spec)
    before = trees_of(prep)
    res = K.run_session(prep, cfg, os.path.join(d, "k"), after_abandoned=after_abandoned)
    return res, prep, before, d


def abandoned_session(spec, cfg, root, name):
    """An earlier session that is never brought to a proper end: every requested trace is an in-memory one, nothing
    is consumed, endCollect() is tried once.  Returns True if endCollect() refused (rows were left)."""
    d = os.path.join(root, name)
    os.makedirs(d, exist_ok=True)
    prep = K.prepare(spec)
    Metrics.beginCollect(os.path.join(d, "k"))
    for r, ty, how in cfg.get("traces", []):
        Metrics.trace(r, type_=ty, consumable=True)
    K.execute(prep)
    try:
        Metrics.endCollect()
    except AssertionError:
        return True
    return False


def check(case, rec):
    spec, cfg = case["kernel"], case["metrics"]
    # every case starts from the state the Metrics class has after import; from here on only the
    # library's own beginCollect / endCollect clean up between the sessions of the case
    K.reset_metrics()

    # (1) collection off
    prep0 = K.prepare(spec)
    ops_before = trees_of(prep0)
    counts0, _ = K.execute(prep0)
    content0, ztree0, ops_after0 = K.result_content(prep0), z_tree(prep0), trees_of(prep0)

    root = tempfile.mkdtemp(prefix="vf-c15-")
    try:
        # (2) fresh session
        a, prep_a, before_a, dir_a = session(spec, cfg, root, "A")
        where = describe(spec, cfg)
        if before_a != ops_before:
            raise Violation("prepare-nondeterministic", f"two prepare() calls built different operands -- {where}")
        if a.content != content0:
            raise Violation("transparency-result", f"content(Z) is {a.content} with collection on and {content0} with "
                            f"collection off -- {where}")
        if z_tree(prep_a) != ztree0:
            raise Violation("transparency-result", f"stored tree of Z is {z_tree(prep_a)} with collection on and "
                            f"{ztree0} with collection off -- {where}")
        if trees_of(prep_a) != ops_after0:
            raise Violation("transparency-operands", f"operands after the kernel differ: on={trees_of(prep_a)} "
                            f"off={ops_after0} -- {where}")
        if a.counts.as_dict() != counts0.as_dict():
            raise Violation("transparency-loops", f"the loop nest executed differently: on={a.counts.as_dict()} "
                            f"off={counts0.as_dict()} -- {where}")
        if Metrics.isCollecting():
            raise Violation("session-left-open", f"isCollecting() after endCollect -- {where}")
        check_exact(a, spec, cfg, dir_a, "k", "fresh session")

        # pre-history
        # with `reuse_prefix` the earlier sessions and the final one all write under ONE prefix (re-running a
        # notebook cell): a new session must not inherit rows that an earlier session left in a file
        reuse = bool(case.get("reuse_prefix"))
        left_open = False
        nh = len(case["history"])
        ready = {}          # operands built ahead: tensors cannot be built while Metrics believes a session is open
        for i, h in enumerate(case["history"]):
            if h.get("abandon"):
                if left_open:
                    continue
                j = next((k for k in range(i + 1, nh) if not case["history"][k].get("abandon")), nh)
                ready[j] = K.prepare(case["history"][j]["kernel"] if j < nh else spec)
                refused = abandoned_session(h["kernel"], h["metrics"], root, f"G{i}")
                rec.cls("history-abandoned-session")
                rec.cls("history-abandoned-session-with-unconsumed-rows", refused)
                left_open = Metrics.isCollecting()
                continue
            hres, _, _, hdir = session(h["kernel"], h["metrics"], root, "S" if reuse else f"H{i}",
                                       after_abandoned=left_open, prep=ready.get(i))
            left_open = False
            check_exact(hres, h["kernel"], h["metrics"], hdir, "k", f"history session {i}", shared_dir=reuse)

        # (3) same kernel after the pre-history
        b, prep_b, _, dir_b = session(spec, cfg, root, "S" if reuse else "B", after_abandoned=left_open,
                                      prep=ready.get(nh))
        check_exact(b, spec, cfg, dir_b, "k", "session after pre-history", shared_dir=reuse)
        if reuse:
            b.files = {k: v for k, v in b.files.items() if k in a.files}
        hist = [(h["kernel"]["order"], h["metrics"]) for h in case["history"]]
        for what, x, y in (("Metrics.dump()", a.dump, b.dump), ("Metrics.dump() after endCollect", a.dump_after, b.dump_after),
                           ("Metrics.loop_order", a.loop_order, b.loop_order),
                           ("consumable traces", a.consumed, b.consumed), ("content(Z)", a.content, b.content),
                           ("own counts", a.counts.as_dict(), b.counts.as_dict())):
            if x != y:
                raise Violation("isolation", f"{what} differs: fresh={x} after-history={y}; history={hist} -- {where}")
        if a.files != b.files:
            diff = {k: (a.files.get(k), b.files.get(k)) for k in sorted(set(a.files) | set(b.files))
                    if a.files.get(k) != b.files.get(k)}
            raise Violation("isolation-trace-files", f"trace files differ (fresh, after-history): {diff}; "
                            f"history={hist} -- {where}")
    finally:
        shutil.rmtree(root, ignore_errors=True)

    # classification
    traced_ranks = {r for r, ty, how in cfg["traces"] if r in spec["order"]}
    nrows = max([len(v) for v in a.files.values()] + [0])
    rec.cls(f"history{len(case['history'])}")
    rec.cls("prefix-reused", bool(case.get("reuse_prefix")) and len(case["history"]) > 0)
    rec.cls("history-match", any(h["metrics"]["match"] for h in case["history"]))
    rec.cls("history-match-main-rank", any(set(m) & set(spec["order"]) for h in case["history"]
                                           for m in h["metrics"]["match"]))
    rec.cls("history-threshold", any(h["metrics"]["num_cached_uses"] not in (None, cfg["num_cached_uses"])
                                     for h in case["history"]))
    rec.cls("threshold-inherited", cfg["num_cached_uses"] is None)
    rec.cls("flushed-mid-session", any(how in ("file", "both") and cfg["num_cached_uses"] in (2, 3, 5)
                                       and a.files.get(f"{r}-{ty}.csv", b"").count(b"\n") >= cfg["num_cached_uses"]
                                       for r, ty, how in cfg["traces"]))
    rec.cls("accumulation-nonzero", a.counts.add >= 1)
    rec.cls("traced-ranks>=2", len(traced_ranks) >= 2)
    rec.cls("trace-file", any(how in ("file", "both") for _, _, how in cfg["traces"]))
    rec.cls("trace-consumable", any(how in ("consumable", "both") for _, _, how in cfg["traces"]))
    rec.cls("trace-intersect", any(ty.startswith("intersect") and a.files.get(f"{r}-{ty}.csv", b"").count(b"\n") > 1
                                   for r, ty, how in cfg["traces"]))
    rec.cls("trace-populate", any(ty.startswith("populate") and a.files.get(f"{r}-{ty}.csv", b"").count(b"\n") > 1
                                  for r, ty, how in cfg["traces"]))
    rec.cls("preregistered", cfg["preregister"] > 0)
    rec.cls("consume-outer", cfg["consume"] == "outer" and any(how != "file" for _, _, how in cfg["traces"]))
    rec.cls("style-" + spec["style"])
    rec.cls("tiled", bool(spec["tile"]))
    rec.cls("zero-product-skipped", a.counts.skipped_zero >= 1)
    rec.cls("no-ops", a.counts.update == 0)
    rec.cls("mul", a.counts.mul >= 1)
    rec.cls("result-stores-zero", ztree0 != 0 and _has_zero(ztree0))
    rec.nontrivial(a.counts.add >= 1 and len(traced_ranks) >= 2 and len(case["history"]) >= 1)


def _has_zero(tree):
    if not isinstance(tree, list):
        return tree == 0
    return any(_has_zero(ch) for _, ch in tree)


# ---------------------------------------------------------------- payload operations counted one by one
OPS = ["iadd", "iadd", "ilshift", "ilshift", "imul", "add", "radd", "mul", "rmul", "sub", "isub", "iadd_box",
       "ilshift_box", "mul_box", "mul_elem", "mul_elem", "add_elem", "mul_elem_box", "mul_elem_scalar", "iadd_elem",
       "rmul_elem", "radd_elem", "add_elem_scalar", "iadd_elem_scalar", "imul_elem_scalar", "ilshift_elem_scalar"]
VALS = [0, 0, 1, 2, 3, -1, -2, -3, 5, 0.5, -0.5]


@st.composite
def op_cases(draw):
    """a straight-line sequence of payload operations on a few boxes, inside one collection session"""
    n = draw(st.integers(1, 4))
    return {"init": [draw(st.sampled_from(VALS)) for _ in range(n)],
            "ops": draw(st.lists(st.tuples(st.sampled_from(OPS), st.integers(0, n - 1), st.integers(0, n - 1),
                                           st.sampled_from(VALS)), min_size=1, max_size=14))}


def check_ops(case, rec):
    """the counts must equal the operations executed, whatever the values involved (zero, equal to the
    current value, negative, cancelling ...): + and reflected + are adds, * and reflected * are multiplies,
    <<= is an update, *= a multiply and an update, += an update plus an add unless the box held 0 (pinned by
    the repository's test_plus_metrics), - and -= are not counted"""
    from fibertree import Payload
    K.reset_metrics()
    boxes = [Payload(v) for v in case["init"]]
    vals = list(case["init"])
    # the same boxes as the payloads of a fiber: fib[i] is a whole element (coordinate and payload), the form a
    # kernel uses when it does not unpack what an iterator hands out
    from fibertree import Fiber
    fib = Fiber(list(range(len(boxes))), boxes)
    if any(p is not b for p, b in zip(fib.payloads, boxes)):
        raise RuntimeError("the fiber did not keep the boxes it was given")
    own = {"payload_add": 0, "payload_mul": 0, "payload_update": 0}
    d = tempfile.mkdtemp(prefix="vf-c15ops-")
    try:
        Metrics.beginCollect(os.path.join(d, "k"))
        try:
            for op, i, j, v in case["ops"]:
                if op == "iadd":
                    own["payload_update"] += 1
                    own["payload_add"] += vals[i] != 0
                    boxes[i] += v
                    vals[i] = vals[i] + v
                elif op == "iadd_box":
                    own["payload_update"] += 1
                    own["payload_add"] += vals[i] != 0
                    rhs = vals[j]
                    boxes[i] += boxes[j]
                    vals[i] = vals[i] + rhs
                elif op == "ilshift":
                    own["payload_update"] += 1
                    boxes[i] <<= v
                    vals[i] = v
                elif op == "ilshift_box":
                    own["payload_update"] += 1
                    boxes[i] <<= boxes[j]
                    vals[i] = vals[j]
                elif op == "imul":
                    own["payload_update"] += 1
                    own["payload_mul"] += 1
                    boxes[i] *= v
                    vals[i] = vals[i] * v
                elif op == "add":
                    own["payload_add"] += 1
                    r = boxes[i] + v
                elif op == "radd":
                    own["payload_add"] += 1
                    r = v + boxes[i]
                elif op == "mul":
                    own["payload_mul"] += 1
                    r = boxes[i] * v
                elif op == "mul_box":
                    own["payload_mul"] += 1
                    r = boxes[i] * boxes[j]
                elif op == "rmul":
                    own["payload_mul"] += 1
                    r = v * boxes[i]
                elif op == "mul_elem":
                    own["payload_mul"] += 1
                    r = fib[i] * fib[j]
                elif op == "mul_elem_box":
                    own["payload_mul"] += 1
                    r = fib[i] * boxes[j]
                elif op == "mul_elem_scalar":
                    own["payload_mul"] += 1
                    r = fib[i] * v
                elif op == "add_elem":
                    own["payload_add"] += 1
                    r = fib[i] + fib[j]
                elif op == "rmul_elem":
                    own["payload_mul"] += 1
                    r = v * fib[i]
                elif op == "radd_elem":
                    own["payload_add"] += 1
                    r = v + fib[i]
                elif op == "add_elem_scalar":
                    own["payload_add"] += 1
                    r = fib[i] + v
                elif op == "iadd_elem_scalar":
                    own["payload_update"] += 1
                    own["payload_add"] += vals[i] != 0
                    e = fib[i]
                    e += v
                    vals[i] = vals[i] + v
                elif op == "imul_elem_scalar":
                    own["payload_update"] += 1
                    own["payload_mul"] += 1
                    e = fib[i]
                    e *= v
                    vals[i] = vals[i] * v
                elif op == "ilshift_elem_scalar":
                    own["payload_update"] += 1
                    e = fib[i]
                    e <<= v
                    vals[i] = v
                elif op == "iadd_elem":
                    own["payload_update"] += 1
                    own["payload_add"] += vals[i] != 0
                    rhs = vals[j]
                    e = fib[i]
                    e += fib[j]
                    vals[i] = vals[i] + rhs
                elif op == "sub":
                    r = boxes[i] - v
                elif op == "isub":
                    boxes[i] -= v
                    vals[i] = vals[i] - v
            dump = Metrics.dump()
        finally:
            Metrics.endCollect()
    finally:
        shutil.rmtree(d, ignore_errors=True)
    got = dump.get("Compute", {})
    for name, mine in own.items():
        if got.get(name, 0) != mine:
            raise Violation("op-count-" + name, f"{name}: Metrics reports {got.get(name, 0)}, {mine} were executed; "
                            f"boxes {case['init']}, operations {case['ops']}")
    for b, v in zip(boxes, vals):
        if b.value != v:
            raise Violation("transparency-ops", f"a box holds {b.value}, expected {v} (collection on)")
    rec.cls("ops")
    rec.cls("assign-equal-value", any(op == "ilshift" for op, *_ in case["ops"]))
    rec.nontrivial(len(case["ops"]) >= 4 and own["payload_update"] >= 2)


PARTS = [Part("sessions", cases(), check, n_quick=1500, n_thorough=6000),
         Part("payload-ops", op_cases(), check_ops, n_quick=1500, n_thorough=10000)]


def coverage_warnings(rec):
    n = max(1, sum(v for k, v in rec.classes.items() if k.startswith("sessions:history") and k[16:].isdigit()))
    out = []
    for k, floor in (("sessions:accumulation-nonzero", 0.2), ("sessions:traced-ranks>=2", 0.3),
                     ("sessions:history-match-main-rank", 0.2), ("sessions:flushed-mid-session", 0.1),
                     ("sessions:trace-consumable", 0.3), ("sessions:trace-intersect", 0.05),
                     ("sessions:trace-populate", 0.05)):
        if rec.classes.get(k, 0) / n < floor:
            out.append(f"{k} only {rec.classes.get(k, 0)}/{n}")
    return out


def _pin_p30():
    import tempfile as _tf
    from fibertree import Tensor
    d = _tf.mkdtemp(prefix="vf-c15pin-")
    try:
        pre = os.path.join(d, "k")
        a = Tensor.fromUncompressed(["K"], [1, 2, 3]).getRoot()
        e = Tensor(rank_ids=["K"], shape=[3]).getRoot()
        for f in (a, e):
            Metrics.beginCollect(pre)
            try:
                Metrics.trace("K")
                z = Tensor(rank_ids=["M"], shape=[2])
                if len(f.coords):
                    for _ in f:
                        pass
            finally:
                Metrics.endCollect()
        n = Compute.numIters(pre + "-K-iter.csv") if os.path.getsize(pre + "-K-iter.csv") else 0
        return None if n == 0 else f"second session (rank K never reached) reports {n} iterations left over from the first session"
    finally:
        shutil.rmtree(d, ignore_errors=True)


PINNED = {"P30-stale-trace-file-same-prefix": _pin_p30}
