"""C04 -- co-iteration operators compute exactly their coordinate-set truth tables."""

from hypothesis import strategies as st

from fibertree import Fiber, Payload, Tensor

from .. import build, gen, model, observe, findings
from ..core import Part, Violation

ID = "C04"
RULE = ("k<=4 fibers over a common shape; per fiber and coordinate a state is drawn from {absent, value, "
        "explicit default} (leaf fibers) or {absent, non-empty / empty / all-default sub-fiber} (2-level), so "
        "every relative order of the merge tails occurs; fibers are owned (1-2 rank tensor root, rank format C "
        "or U) or unowned; a second part uses tuple coordinates of equal and of mixed arity. Oracle: set "
        "algebra over the coordinates each operand presents, identity (is) of delivered payloads, fresh "
        "defaults for absent sides, masks, flat tuples for n-ary forms, leader-follower rows, re-iteration, "
        "operands and their rank lists unchanged. The 2-fiber / shape<=3 leaf sub-domain is enumerated "
        "completely. Non-trivial: >=2 operands non-empty, an explicit default or empty sub-fiber somewhere, "
        "and a non-empty symmetric difference. Distinct = SHA-1 of the case.")
ASSUMPTIONS = ["operands are ordered, unique fibers with a shape (what the merge operators assert)",
               "format U on owned fibers (Tensor.setFormat) and on unowned leaf fibers (their own rank attributes)",
               "mixed-arity matching is claimed for & only (as the statement and the tests have it)"]


# ---------------------------------------------------------------- generation
LEAF_STATES = ["absent", "absent", "value", "value", "xdefault"]
NEST_STATES = ["absent", "absent", "sub", "sub", "empty", "alldef"]


@st.composite
def fiber_desc(draw, shape, nested, default, allow_u=True):
    elems = []
    for c in range(shape):
        if nested:
            s = draw(st.sampled_from(NEST_STATES))
            if s == "absent":
                continue
            if s == "sub":
                inner = draw(gen.trees([3], default, max_elems=3))
                if not model.content_of_tree(inner, 1, default):
                    inner = [[draw(st.integers(0, 2)), draw(gen.nondefault_values(default))]]
            elif s == "empty":
                inner = []
            else:
                inner = [[draw(st.integers(0, 2)), default]]
            elems.append([c, inner])
        else:
            s = draw(st.sampled_from(LEAF_STATES))
            if s == "absent":
                continue
            elems.append([c, default if s == "xdefault" else draw(gen.nondefault_values(default))])
    owned = draw(st.booleans())
    # (an unowned fiber declares its format in its own rank attributes; nested unowned fibers stay compressed:
    # an unowned interior fiber does not know the default of the level below)
    fmt = draw(st.sampled_from(["C", "C", "C", "U"])) if ((owned or not nested) and allow_u) else "C"
    return {"elems": elems, "owned": owned, "fmt": fmt, "default": default}


@st.composite
def cases(draw):
    shape = draw(st.integers(1, 7))
    nested = draw(st.booleans())
    default = draw(st.sampled_from([0, 0, 0, 2]))
    k = draw(st.sampled_from([2, 2, 2, 3, 4]))
    # (each side has its own default: now and then the operands disagree about it)
    other = draw(st.sampled_from([None, None, None, 5, 0, 2]))
    fibers = [draw(fiber_desc(shape, nested, default if (other is None or i % 2 == 0) else other)) for i in range(k)]
    return {"shape": shape, "nested": nested, "default": default, "fibers": fibers,
            "prior": draw(st.integers(0, 15)), "upd": draw(st.one_of(st.none(), st.integers(0, 50)))}


def enum_small(tier):
    """every pair of leaf fibers over shape<=3 (thorough) / shape<=2 (quick), states {absent,value,xdefault}"""
    import itertools
    top = 3 if tier == "thorough" else 2
    for shape in range(1, top + 1):
        for sa in itertools.product(range(3), repeat=shape):
            for sb in itertools.product(range(3), repeat=shape):
                fs = []
                for i, ss in enumerate((sa, sb)):
                    elems = [[c, 0 if s == 2 else c + 1 + 10 * i] for c, s in enumerate(ss) if s]
                    fs.append({"elems": elems, "owned": bool((sum(sa) + i) % 2), "fmt": "C"})
                yield {"shape": shape, "nested": False, "default": 0, "fibers": fs}


@st.composite
def tuple_cases(draw):
    """tuple coordinates: equal arity (all operators) or mixed arity (& only)"""
    mixed = draw(st.booleans())
    default = draw(st.sampled_from([0, 0, 5]))
    if not mixed:
        ar = draw(st.integers(1, 3))
        universe = sorted(draw(st.sets(st.tuples(*[st.integers(0, 2)] * ar), min_size=0, max_size=6)))
        fs = []
        for _ in range(2):
            elems = []
            for c in universe:
                s = draw(st.sampled_from(LEAF_STATES))
                if s != "absent":
                    elems.append([list(c), default if s == "xdefault" else draw(gen.nondefault_values(default))])
            fs.append({"elems": elems, "arity": ar})
        return {"mixed": False, "fibers": fs, "default": default}
    ar_long = draw(st.integers(2, 3))
    ar_short = draw(st.integers(0, ar_long - 1))   # 0 = plain int coordinates
    long_c = sorted(draw(st.sets(st.tuples(*[st.integers(0, 3)] * ar_long), min_size=1, max_size=6)))
    if ar_short == 0:
        short_c = sorted(draw(st.sets(st.integers(0, 3), min_size=1, max_size=4)))
    else:
        short_c = sorted(draw(st.sets(st.tuples(*[st.integers(0, 3)] * ar_short), min_size=1, max_size=4)))
    def mk(cs):
        out = []
        for c in cs:
            s = draw(st.sampled_from(["value", "value", "value", "xdefault"]))
            out.append([list(c) if isinstance(c, tuple) else c,
                        default if s == "xdefault" else draw(gen.nondefault_values(default))])
        return out
    fl = {"elems": mk(long_c), "arity": ar_long}
    fs_ = {"elems": mk(short_c), "arity": ar_short}
    order = draw(st.booleans())
    return {"mixed": True, "fibers": [fl, fs_] if order else [fs_, fl], "default": default}


# ---------------------------------------------------------------- building
def build_operand(desc, shape, nested, default, idx):
    elems = desc["elems"]
    if nested:
        spec = {"rank_ids": ["M", "K"], "shape": [shape, 3], "default": default, "tree": elems}
    else:
        spec = {"rank_ids": ["M"], "shape": [shape], "default": default, "tree": elems}
    if desc["owned"]:
        t = build.build_tensor(spec, "ref")
        if desc["fmt"] == "U":
            t.setFormat("M", "U")
        return t.getRoot(), t
    f = build.build_fiber(spec, name_ranks=True)
    if desc["fmt"] == "U":
        f.getRankAttrs().setFormat("U")
    return f, None


def presented_model(desc, shape, nested, default):
    """[(coord, stored_index | None)] the operand presents, in order."""
    stored = {model.tuplify(c): i for i, (c, _) in enumerate(desc["elems"])}
    if desc["fmt"] == "U":
        return [(c, stored.get(c)) for c in range(shape)]
    out = []
    for i, (c, ch) in enumerate(desc["elems"]):
        if nested:
            if model.content_of_tree(ch, 1, default):
                out.append((model.tuplify(c), i))
        elif ch != default:
            out.append((model.tuplify(c), i))
    return out


class Operand:
    def __init__(self, desc, shape, nested, default, idx):
        self.desc = desc
        self.fiber, self.tensor = build_operand(desc, shape, nested, default, idx)
        self.pres = presented_model(desc, shape, nested, default)
        self.pres_map = dict(self.pres)
        self.stored_ids = {id(p) for p in self.fiber.payloads}
        self.nested = nested
        self.default = default
        self.snap0 = observe.snap(self.fiber)
        self.ranks0 = observe.rank_lists(self.tensor) if self.tensor else None
        self.fresh_now = []

    def check_payload(self, c, p, where):
        """p must be the stored payload at c, or a fresh default if c is absent"""
        idx = self.pres_map.get(c, None) if c in self.pres_map else None
        if c in self.pres_map and idx is not None:
            want = self.fiber.payloads[idx]
            if p is not want:
                raise Violation("payload-identity", f"{where}: payload at {c} is not the operand's stored object "
                                f"(got {p!r}, stored {want!r})")
            return
        # absent (or U-format hole): fresh default
        _distinct(self, c, p, where)
        if id(p) in self.stored_ids:
            raise Violation("default-aliased", f"{where}: default for absent coordinate {c} is a stored payload")
        if self.nested:
            if not isinstance(p, Fiber) or len(p.coords) != 0:
                raise Violation("default-value", f"{where}: default for absent {c} is {p!r}, expected an empty fiber")
        else:
            if not isinstance(p, Payload) or isinstance(p.value, (Payload, Fiber)) or p.value != self.default:
                raise Violation("default-value", f"{where}: default for absent {c} is {p!r}, expected boxed {self.default}")

    def unchanged(self, where, rec):
        s = observe.snap(self.fiber)
        if s != self.snap0:
            raise Violation("operand-modified", f"{where}: operand changed: {self.snap0} -> {s}")
        if self.tensor is not None:
            now = observe.rank_lists(self.tensor)
            if now != self.ranks0:
                if findings.is_open(ID, "P1-union-default-added-to-rank") and _only_appended_empty(self, now):
                    rec.known("P1-union-default-added-to-rank")
                    # normalise: drop the stale fibers again so that the search continues
                    for r, old in zip(self.tensor.ranks, self.ranks0):
                        r.fibers[:] = [f for f in r.fibers if id(f) in set(old)]
                    return
                raise Violation("ranks-modified", f"{where}: rank lists of the operand's tensor changed "
                                f"({[len(x) for x in self.ranks0]} -> {[len(x) for x in now]})")


def _only_appended_empty(op, now):
    for r, old, new in zip(op.tensor.ranks, op.ranks0, now):
        if new[:len(old)] != old:
            return False
        for f in r.fibers[len(old):]:
            if len(f.coords) != 0:
                return False
    return True


def _iterate(lazy, where):
    out = []
    last = None
    for cp in lazy:
        c, p = cp.coord, cp.payload
        if last is not None and not (last < c):
            raise Violation("order", f"{where}: coordinates not strictly ascending: {last} then {c}")
        last = c
        out.append((c, p))
    return out


iterate = _iterate          # (name used by c07)


def tup(p, where, n):
    v = Payload.get(p)
    if not isinstance(v, tuple) or len(v) != n:
        raise Violation("payload-shape", f"{where}: expected a {n}-tuple payload, got {p!r}")
    return v


def check(case, rec):
    shape, nested, default = case["shape"], case["nested"], case["default"]
    ops = [Operand(d, shape, nested, d.get("default", default), i) for i, d in enumerate(case["fibers"])]
    # earlier, unrelated public calls may have left a saved position on an operand: the operators
    # must not depend on it
    for i, o in enumerate(ops):
        if case.get("prior", 0) >> i & 1 and o.fiber.coords:
            o.fiber.getPayload(o.fiber.coords[-1], start_pos=0)
            o.fiber.getPosition(o.fiber.coords[-1], start_pos=0)
    a, b = ops[0], ops[1]
    A = [c for c, _ in a.pres]
    B = [c for c, _ in b.pres]
    sA, sB = set(A), set(B)

    def after(where):
        for o in ops:
            o.unchanged(where, rec)

    alive = []

    def iterate(lazy, where, again=False):
        # the defaults delivered during one traversal are all kept alive in the result, so object identity
        # decides whether each absent side got a default of its own.  `again`: a further traversal of the SAME
        # lazy fiber -- its defaults must be fresh ones too, not those of the traversal before
        if not again:
            bag = []
            for o in ops:
                o.fresh_now = bag
        got_ = _iterate(lazy, where)
        alive.append(got_)
        return got_

    def binary(tag=""):
        A = [c for c, _ in a.pres]
        B = [c for c, _ in b.pres]
        sA, sB = set(A), set(B)
        # ---- a & b
        lz = a.fiber & b.fiber          # one lazy fiber, traversed twice
        for rep in range(2):
            got = iterate(lz, "a&b", again=rep > 0)
            want = [c for c in A if c in sB]
            if [c for c, _ in got] != want:
                raise Violation("and-coords", f"a&b yields {[c for c, _ in got]}, intersection is {want}; a={a.desc} b={b.desc}")
            for c, p in got:
                pa, pb = tup(p, "a&b", 2)
                a.check_payload(c, pa, "a&b[a]")
                b.check_payload(c, pb, "a&b[b]")
        after("a&b")

        # ---- a | b
        lz = a.fiber | b.fiber          # one lazy fiber, traversed twice
        for rep in range(2):
            got = iterate(lz, "a|b", again=rep > 0)
            want = sorted(sA | sB)
            if [c for c, _ in got] != want:
                raise Violation("or-coords", f"a|b yields {[c for c, _ in got]}, union is {want}; a={a.desc} b={b.desc}")
            for c, p in got:
                m, pa, pb = tup(p, "a|b", 3)
                wm = ("A" if c in sA else "") + ("B" if c in sB else "")
                if m != wm:
                    raise Violation("or-mask", f"a|b mask at {c} is {m!r}, expected {wm!r}")
                a.check_payload(c, pa, "a|b[a]") if c in sA else _fresh(a, c, pa, "a|b[a]")
                b.check_payload(c, pb, "a|b[b]") if c in sB else _fresh(b, c, pb, "a|b[b]")
            after("a|b")

        # ---- a ^ b
        lz = a.fiber ^ b.fiber          # one lazy fiber, traversed twice
        for rep in range(2):
            got = iterate(lz, "a^b", again=rep > 0)
            want = sorted(sA ^ sB)
            if [c for c, _ in got] != want:
                raise Violation("xor-coords", f"a^b yields {[c for c, _ in got]}, symmetric difference is {want}; a={a.desc} b={b.desc}")
            for c, p in got:
                m, pa, pb = tup(p, "a^b", 3)
                wm = "A" if c in sA else "B"
                if m != wm:
                    raise Violation("xor-mask", f"a^b mask at {c} is {m!r}, expected {wm!r}")
                a.check_payload(c, pa, "a^b[a]") if c in sA else _fresh(a, c, pa, "a^b[a]")
                b.check_payload(c, pb, "a^b[b]") if c in sB else _fresh(b, c, pb, "a^b[b]")
            after("a^b")

        # ---- a - b
        lz = a.fiber - b.fiber          # one lazy fiber, traversed twice
        for rep in range(2):
            got = iterate(lz, "a-b", again=rep > 0)
            want = [c for c in A if c not in sB]
            gotc = [c for c, _ in got]
            if gotc != want:
                if (a.desc["fmt"] == "U" and findings.is_open(ID, "P19-sub-drops-defaults-of-U-operand")
                        and gotc == [c for c in want if a.pres_map[c] is not None and _nonempty(a, c)]):
                    rec.known("P19-sub-drops-defaults-of-U-operand")
                    break
                raise Violation("sub-coords", f"a-b yields {gotc}, difference is {want}; a={a.desc} b={b.desc}")
            for c, p in got:
                a.check_payload(c, p, "a-b")
        after("a-b")

    binary()

    # ---- n-ary forms over all k operands
    k = len(ops)
    pres = [dict(o.pres) for o in ops]
    sets = [set(p) for p in pres]
    fibs = [o.fiber for o in ops]
    lz = Fiber.intersection(*fibs)
    for rep in range(2):
        got = iterate(lz, "intersection", again=rep > 0)
        want = [c for c in A if all(c in s for s in sets)]
        if [c for c, _ in got] != want:
            raise Violation("nary-and-coords", f"intersection yields {[c for c, _ in got]}, expected {want}; {case['fibers']}")
        for c, p in got:
            ps = tup(p, "intersection", k)
            for o, x in zip(ops, ps):
                o.check_payload(c, x, "intersection")
    after("intersection")
    lz = Fiber.union(*fibs)
    for rep in range(2):
        got = iterate(lz, "union", again=rep > 0)
        want = sorted(set().union(*sets))
        if [c for c, _ in got] != want:
            raise Violation("nary-or-coords", f"union yields {[c for c, _ in got]}, expected {want}; {case['fibers']}")
        for c, p in got:
            ps = tup(p, "union", k + 1)
            wm = "".join(chr(ord("A") + i) for i in range(k) if c in sets[i])
            if ps[0] != wm:
                raise Violation("nary-or-mask", f"union mask at {c} is {ps[0]!r}, expected {wm!r}")
            for i, (o, x) in enumerate(zip(ops, ps[1:])):
                o.check_payload(c, x, "union") if c in sets[i] else _fresh(o, c, x, "union")
        after("union")

    # ---- leader-follower
    lz = Fiber.intersection(*fibs, style="leader-follower")
    for rep in range(2):
        got = iterate(lz, "leader-follower", again=rep > 0)
        if [c for c, _ in got] != A:
            raise Violation("lf-coords", f"leader-follower yields {[c for c, _ in got]}, leader presents {A}")
        for c, p in got:
            ps = tup(p, "leader-follower", k)
            a.check_payload(c, ps[0], "lf[leader]")
            for o, x in zip(ops[1:], ps[1:]):
                # follower: stored payload if the coordinate is stored (even an explicit default), else default
                stored = {model.tuplify(cc): i for i, (cc, _) in enumerate(o.desc["elems"])}
                if c in stored:
                    if x is not o.fiber.payloads[stored[c]]:
                        # (an explicit default / empty sub-fiber "counts as absent": the stored object or a fresh
                        # default are both what the statement allows for it)
                        if c not in o.pres_map or o.pres_map[c] is None or not _nonempty(o, c):
                            _fresh(o, c, x, "lf[follower, stored but empty]")
                        else:
                            raise Violation("lf-payload", f"leader-follower: follower payload at {c} is not the stored "
                                            f"object")
                else:
                    _fresh(o, c, x, "lf[follower]")
    after("leader-follower")

    # ---- "updates through them reach the operands": a stored element of `a` is updated in place (a value becomes
    # the default, an explicit default becomes a value; below a sub-fiber: all of its leaves) and the operators are
    # asked again -- they must describe `a` as it is now
    sel = case.get("upd")
    if sel is not None and a.fiber.payloads and a.desc["fmt"] == "C":
        i = sel % len(a.fiber.payloads)
        da = a.desc.get("default", default)
        elems = [list(e) for e in a.desc["elems"]]
        tgt = a.fiber.payloads[i]
        flipped = None
        if not nested:
            nv = da if elems[i][1] != da else da + 7
            tgt <<= nv
            elems[i][1] = nv
            flipped = nv != da
        elif len(tgt.payloads):
            sub = [list(e) for e in elems[i][1]]
            has = bool(model.content_of_tree(sub, 1, da))
            for j, q in enumerate(tgt.payloads):
                nv = da if has else da + 7
                q <<= nv
                sub[j][1] = nv
            elems[i][1] = sub
            flipped = not has
        if flipped is not None:
            a.desc = dict(a.desc, elems=elems)
            a.pres = presented_model(a.desc, shape, nested, da)
            a.pres_map = dict(a.pres)
            a.snap0 = observe.snap(a.fiber)
            binary(" (after an in-place update of an element of a)")
            rec.cls("asked-again-after-update")
            rec.cls("update-makes-present" if flipped else "update-makes-absent")

    # ---- classification
    A = [c for c, _ in a.pres]
    sA, sB = set(A), {c for c, _ in b.pres}
    nonempty = sum(1 for s in sets if s)
    noisy = any((model.has_explicit_default(d["elems"], 2 if nested else 1, d.get("default", default))
                 or (nested and any(len(ch) == 0 for _, ch in d["elems"]))) for d in case["fibers"])
    rec.cls("nested", nested)
    rec.cls("leaf", not nested)
    rec.cls("has-U", any(d["fmt"] == "U" for d in case["fibers"]))
    rec.cls("unowned-U", any(d["fmt"] == "U" and not d["owned"] for d in case["fibers"]))
    rec.cls("defaults-differ", len({d.get("default", default) for d in case["fibers"]}) > 1)
    rec.cls("owned-nonleaf", nested and any(d["owned"] for d in case["fibers"]))
    rec.cls(f"k{k}")
    rec.cls("noisy", noisy)
    rec.cls("empty-operand", nonempty < k)
    rec.nontrivial(nonempty >= 2 and noisy and bool(sA ^ sB))


def _nonempty(o, c):
    idx = o.pres_map[c]
    ch = o.desc["elems"][idx][1]
    if o.nested:
        return bool(model.content_of_tree(ch, 1, o.default))
    return ch != o.default


def _distinct(o, c, p, where):
    if any(p is q for q in o.fresh_now):
        raise Violation("default-shared", f"{where}: the default delivered for the absent side at {c} is an object "
                        f"already delivered earlier in the same traversal ({p!r})")
    o.fresh_now.append(p)


def _fresh(o, c, p, where):
    """payload for a side that does not present c: a fresh default"""
    if id(p) in o.stored_ids:
        raise Violation("default-aliased", f"{where}: default for absent coordinate {c} is a stored payload of the operand")
    _distinct(o, c, p, where)
    if o.nested:
        if not isinstance(p, Fiber) or len(p.coords) != 0:
            raise Violation("default-value", f"{where}: default for absent {c} is {p!r}, expected an empty fiber")
    else:
        if not isinstance(p, Payload) or isinstance(p.value, (Payload, Fiber)) or p.value != o.default:
            raise Violation("default-value", f"{where}: default for absent {c} is {p!r}, expected boxed {o.default}")


# ---------------------------------------------------------------- tuple coordinates
def check_tuple(case, rec):
    default = case.get("default", 0)
    fs = []
    for d in case["fibers"]:
        coords = [model.tuplify(c) for c, _ in d["elems"]]
        # tuple-coordinate ranks carry a tuple shape (as flattened tensors do); extent 4 per component
        shp = 4 if d["arity"] == 0 else (4,) * d["arity"]
        f = Fiber(coords, [v for _, v in d["elems"]], shape=shp, default=default)
        fs.append((f, coords, [v for _, v in d["elems"]], observe.snap(f)))
    (fa, ca, va, s_a), (fb, cb, vb, s_b) = fs
    pa = [c for c, v in zip(ca, va) if v != default]
    pb = [c for c, v in zip(cb, vb) if v != default]
    if not case["mixed"]:
        ops = {"&": (lambda: fa & fb, [c for c in pa if c in set(pb)]),
               "|": (lambda: fa | fb, sorted(set(pa) | set(pb))),
               "^": (lambda: fa ^ fb, sorted(set(pa) ^ set(pb))),
               "-": (lambda: fa - fb, [c for c in pa if c not in set(pb)])}
        for name, (mk, want) in ops.items():
            for rep in range(2):
                got = _iterate(mk(), f"tuple a{name}b")
                if [c for c, _ in got] != want:
                    raise Violation("tuple-coords", f"a{name}b yields {[c for c, _ in got]}, expected {want}; a={ca} b={cb}")
                for c, p in got:
                    if name == "&":
                        x, y = tup(p, name, 2)
                        if x is not fa.payloads[ca.index(c)] or y is not fb.payloads[cb.index(c)]:
                            raise Violation("payload-identity", f"tuple a&b: payloads at {c} are not the stored objects")
                    elif name == "-":
                        if p is not fa.payloads[ca.index(c)]:
                            raise Violation("payload-identity", f"tuple a-b: payload at {c} is not the stored object")
                    else:
                        m, x, y = tup(p, name, 3)
                        wm = ("A" if c in set(pa) else "") + ("B" if c in set(pb) else "")
                        if m != wm:
                            raise Violation("tuple-mask", f"a{name}b mask at {c}: {m!r} expected {wm!r}")
                        if c in set(pa) and x is not fa.payloads[ca.index(c)]:
                            raise Violation("payload-identity", f"tuple a{name}b: a payload at {c} not stored object")
                        if c in set(pb) and y is not fb.payloads[cb.index(c)]:
                            raise Violation("payload-identity", f"tuple a{name}b: b payload at {c} not stored object")
        rec.cls("tuple-equal-arity")
        rec.nontrivial(bool(pa) and bool(pb) and bool(set(pa) ^ set(pb)) and (len(pa) < len(ca) or len(pb) < len(cb)))
    else:
        ara, arb = case["fibers"][0]["arity"], case["fibers"][1]["arity"]

        def prefix(c, n):
            if n == 0:
                return c[0]
            return c[:n]
        if ara > arb:
            want = [(c, c, prefix(c, arb)) for c in pa if prefix(c, arb) in set(pb)]
        else:
            want = [(c, prefix(c, ara), c) for c in pb if prefix(c, ara) in set(pa)]
        for rep in range(2):
            got = _iterate(fa & fb, "mixed a&b")
            if [c for c, _ in got] != [w[0] for w in want]:
                raise Violation("mixed-coords", f"mixed-arity a&b yields {[c for c, _ in got]}, expected "
                                f"{[w[0] for w in want]}; a={ca} b={cb}")
            for (c, p), (_, wa, wb) in zip(got, want):
                x, y = tup(p, "mixed", 2)
                if x is not fa.payloads[ca.index(wa)] or y is not fb.payloads[cb.index(wb)]:
                    raise Violation("payload-identity", f"mixed-arity a&b: payloads at {c} are not the stored objects")
        rec.cls("tuple-mixed-arity")
        rec.cls("int-vs-tuple", min(ara, arb) == 0)
        rec.nontrivial(len(want) >= 1 and (len(pa) < len(ca) or len(pb) < len(cb) or len(want) < max(len(pa), len(pb))))
    rec.cls("tuple-nonzero-default", default != 0)
    if observe.snap(fa) != s_a or observe.snap(fb) != s_b:
        raise Violation("operand-modified", "tuple-coordinate operand changed by co-iteration")


PARTS = [
    Part("small-exhaustive", None, check, 0, 0, enumerate=enum_small,
         exhaustive_note="all pairs of leaf fibers over shape<=2 (quick) / <=3 (thorough), per-coordinate state in "
                         "{absent,value,explicit default}"),
    Part("coiter", cases(), check, n_quick=2500, n_thorough=8000),
    Part("tuple", tuple_cases(), check_tuple, n_quick=1500, n_thorough=6000),
]


def coverage_warnings(rec):
    out = []
    n = max(1, rec.classes.get("coiter:leaf", 0) + rec.classes.get("coiter:nested", 0))
    for k, floor in (("coiter:has-U", 0.1), ("coiter:owned-nonleaf", 0.2), ("coiter:noisy", 0.5)):
        if rec.classes.get(k, 0) / n < floor:
            out.append(f"{k} only {rec.classes.get(k, 0)}/{n}")
    return out


def _pin_p19():
    t = Tensor(rank_ids=["M"], shape=[2])
    t.setFormat("M", "U")
    a = t.getRoot()
    b = Fiber([], [], shape=2)
    got = [c for c, _ in a - b]
    if got != [0, 1]:
        return f"(a - b) for an uncompressed-format empty a over shape 2 and empty b yields {got}, a presents [0, 1]"
    return None


def _pin_p1():
    t = Tensor(rank_ids=["M", "K"], shape=[2, 2])
    t.getPayloadRef(0, 0).__ilshift__(1)
    u = Tensor(rank_ids=["M", "K"], shape=[2, 2])
    u.getPayloadRef(1, 0).__ilshift__(1)
    before = [len(r.getFibers()) for r in t.ranks]
    for _ in t.getRoot() | u.getRoot():
        pass
    after = [len(r.getFibers()) for r in t.ranks]
    if before != after:
        return f"iterating a | b changed the rank lists of a's tensor: {before} -> {after}"
    return None


def _pin_p20():
    a = Fiber([], [], shape=(4, 4))
    b = Fiber([(0, 0)], [1], shape=(4, 4))
    try:
        got = [c for c, _ in a & b]
    except TypeError as e:
        return f"empty & tuple-coordinate fiber raises TypeError: {e}"
    return None if got == [] else f"empty & b yields {got}"


def _pin_p31():
    f = Fiber([1, 5, 7], [1, 2, 3], shape=9)
    a = Fiber([1, 5], [4, 5], shape=9)
    f.getPayload(7, start_pos=0)
    try:
        got = [c for c, _ in Fiber.intersection(a, f, style="leader-follower")]
    except AssertionError:
        return "leader-follower intersection raises AssertionError when the follower carries a saved position from an earlier getPayload(.., start_pos=..)"
    return None if got == [1, 5] else f"leader-follower yields {got}"


PINNED = {"P19-sub-drops-defaults-of-U-operand": _pin_p19,
          "P31-leader-follower-stale-saved-pos": _pin_p31,
          "P20-and-empty-operand-tuple-coords": _pin_p20,
          "P1-union-default-added-to-rank": _pin_p1}
