"""C08 -- splitting partitions a fiber losslessly at exactly the specified boundaries."""

import math

from hypothesis import strategies as st

from fibertree import Fiber, Payload, Tensor

from .. import build, gen, model, observe, findings
from ..core import Part, Violation

ID = "C08"
RULE = ("A tree of depth 1-3 (explicit defaults, empty sub-fibers; tensor via every route, or an unowned fiber with "
        "an optional active range) and a split request: kind in {uniform(step), nonuniform(sorted list), equal(size), "
        "unequal(sizes), '/' n, '//' n}, depth 0..d-1, pre/post halo 0..shape, relativeCoords, optionally followed "
        "by a second split of the new lower (.0) rank. Oracle: partitions recomputed from the original's element "
        "list: boundaries (multiples of step / the list / coordinates of every k-th active non-empty element, first "
        "boundary = active start / prefix sums of sizes then the remainder); partition i = [b_i, b_i+1) clipped to "
        "the parent's active range, present iff it intersects the active range and a non-empty element lies in the "
        "clipped interval widened by the halos; it then holds exactly those elements in order with unchanged "
        "values (minus b_i when relative); upper coordinates = present boundaries ascending; lower active range = "
        "clipped interval; without halos every active non-empty element at or after the first boundary appears "
        "exactly once; re-splits compose. Tensor level: the same per fiber of the rank, compared as content. "
        "Non-trivial: >=2 partitions and (an element in a halo or an explicit default / empty sub-fiber in the split "
        "fiber). Distinct = SHA-1 of the case.")
ASSUMPTIONS = ["steps and sizes are >= 1, split lists strictly increasing non-negative ints",
               "elements before the first non-uniform boundary belong to no partition (pinned by the repository's tests)",
               "ranks are compressed (format C); re-splitting is done on absolute-coordinate partitions only"]


# ---------------------------------------------------------------- model
def boundaries(kind, param, pres, a0, a1, nstored):
    """pres: coords of the non-empty elements (ascending).  Returns (list of boundaries, step | None)."""
    active = [c for c in pres if a0 <= c < a1]
    if kind == "uniform":
        return None, param
    if kind == "nonuniform":
        return list(param), None
    if kind == "equal":
        return [a0 if i == 0 else c for i, c in enumerate(active) if i % param == 0], None
    if kind == "unequal":
        out, j, base = [], 0, 0
        for i, c in enumerate(active):
            if j == len(param):
                break
            if i == 0:
                out.append(a0)
            elif i - base == param[j]:
                base = i
                j += 1
                out.append(c)
        return out, None
    raise ValueError(kind)


def split_model(pres, kind, param, a0, a1, pre, post, relative, nstored=None):
    """pres: [(coord, tag)] non-empty elements.  Returns [(b, (lo, hi), [(coord', tag)])]."""
    coords = [c for c, _ in pres]
    bs, step = boundaries(kind, param, coords, a0, a1, nstored)
    parts = []
    if step is not None:
        if not pres:
            return []
        lo_b = (min(coords) - post) // step * step
        hi_b = (max(coords) + pre) // step * step
        cand = [(b, b + step) for b in range(lo_b, hi_b + step, step)]
    else:
        cand = [(b, bs[i + 1] if i + 1 < len(bs) else math.inf) for i, b in enumerate(bs)]
    for b, e in cand:
        if not (e > a0 and b < a1):
            continue                      # entirely outside the parent's active range
        lo, hi = max(b, a0), min(e, a1)
        elems = [(c - b if relative else c, tag) for c, tag in pres if lo - pre <= c < hi + post]
        if elems:
            parts.append((b, (lo, hi), elems))
    return parts


# ---------------------------------------------------------------- generation
@st.composite
def split_req(draw, S):
    kind = draw(st.sampled_from(["uniform", "uniform", "nonuniform", "equal", "unequal", "div", "floordiv"]))
    r = {"kind": kind, "relative": draw(st.booleans()), "by_rankid": draw(st.booleans()),
         "pre": draw(st.sampled_from([0, 0, 0, 1, 2, S])), "post": draw(st.sampled_from([0, 0, 0, 1, 2, S]))}
    if kind == "uniform":
        r["param"] = draw(st.integers(1, S + 1))
    elif kind == "nonuniform":
        r["param"] = sorted(draw(st.sets(st.integers(0, S + 1), min_size=1, max_size=4)))
        r["as_fiber"] = draw(st.sampled_from([0, 0, 1, 2]))
    elif kind == "equal":
        r["param"] = draw(st.integers(1, 4))
    elif kind == "unequal":
        r["param"] = draw(st.lists(st.integers(1, 3), min_size=1, max_size=3))
    else:
        r["param"] = draw(st.integers(1, 4))
        r["pre"] = r["post"] = 0
        r["relative"] = False
    return r


@st.composite
def cases(draw):
    d = draw(st.sampled_from([1, 1, 2, 2, 3]))
    shape = [draw(st.integers(1, 8)) for _ in range(d)]
    spec = draw(gen.tree_specs(shape=shape, defaults=(0, 0, 0, 2), max_elems=6))
    depth = draw(st.integers(0, d - 1))
    how = draw(st.sampled_from(["ref", "fiber", "uncompressed", "yaml", "deepcopy", "unowned", "unowned"]))
    c = {"spec": spec, "depth": depth, "how": how, "req": draw(split_req(shape[depth])), "active": None,
         "req2": None}
    # a tensor whose shape was never declared and that has grown since it was built: "the shape" a split works with
    # is the extent of the rank's fibers as they are now
    c["grown"] = how != "unowned" and draw(st.integers(0, 3)) == 0
    if how == "unowned":
        c["depth"] = 0
        c["req"] = draw(split_req(shape[0]))
        if draw(st.booleans()):
            a0 = draw(st.integers(0, shape[0] - 1))
            c["active"] = [a0, draw(st.integers(a0 + 1, shape[0]))]
        c["shift"] = draw(st.sampled_from([0, 0, 0, 1, 3, shape[0]]))
    if c["req"]["kind"] in ("div", "floordiv"):
        c["depth"] = 0            # the infix shorthands split the top rank
    if draw(st.integers(0, 2)) == 0 and not c["req"]["relative"] and c["req"]["kind"] not in ("div", "floordiv"):
        c["req2"] = draw(split_req(shape[c["depth"]]))
        if how != "unowned" and c["req2"]["kind"] in ("div", "floordiv"):
            c["req2"] = None      # Tensor / and // always split the top rank
    return c


def call_split(obj, req, depth):
    k, p = req["kind"], req["param"]
    kw = dict(relativeCoords=req["relative"], pre_halo=req["pre"], post_halo=req["post"])
    if req.get("by_rankid") and hasattr(obj, "getRankIds") and hasattr(obj, "ranks") \
            and isinstance(obj.getRankIds()[depth], str):
        kw["rankid"] = obj.getRankIds()[depth]          # a tensor's rank may be named instead of counted
    elif depth:
        kw["depth"] = depth
    if k == "uniform":
        return obj.splitUniform(p, **kw)
    if k == "nonuniform":
        if req.get("as_fiber"):
            # the boundaries may be handed over as a fiber (the leader / follower idiom): its coordinates count,
            # whatever its payloads hold (explicit defaults among them)
            return obj.splitNonUniform(Fiber(list(p), [(i + req["as_fiber"]) % 2 for i in range(len(p))]), **kw)
        return obj.splitNonUniform(list(p), **kw)
    if k == "equal":
        return obj.splitEqual(p, **kw)
    if k == "unequal":
        return obj.splitUnEqual(list(p), **kw)
    if k == "div":
        return obj / p
    if k == "floordiv":
        return obj // p
    raise ValueError(k)


def norm_req(req, S, nstored):
    """the division shorthands in terms of the named splits"""
    if req["kind"] == "div":
        return dict(req, kind="uniform", param=(S + req["param"] - 1) // req["param"])
    if req["kind"] == "floordiv":
        return dict(req, kind="equal", param=(nstored + req["param"] - 1) // req["param"])
    return req


# ---------------------------------------------------------------- fiber level (structure)
def check_fiber(case, rec, spec, req, active):
    d, default, shape = model.depth(spec), spec["default"], spec["shape"]
    k = case.get("shift") or 0
    if k and req["kind"] not in ("div", "floordiv"):
        # the same fiber k coordinates further down: negative coordinates (what a projection c -> c - k leaves),
        # the active range and the requested boundaries move along
        spec = dict(spec, tree=[[c - k, ch] for c, ch in spec["tree"]])
        active = [(active[0] if active else 0) - k, (active[1] if active else shape[0]) - k]
        if req["kind"] == "nonuniform":
            req = dict(req, param=[b - k for b in req["param"]])
        case = dict(case, req2=None)
        rec.cls("negative-coordinates", any(c < 0 for c, _ in spec["tree"]))
    f = build.build_fiber(spec)
    if active:
        f.setActive(tuple(active))
    a0, a1 = tuple(active) if active else (0, shape[0])
    snap0 = observe.snap(f)
    pres = [(c, i) for i, (c, ch) in enumerate(spec["tree"])
            if (ch != default if d == 1 else bool(model.content_of_tree(ch, d - 1, default)))]
    nreq = norm_req(req, shape[0], len(spec["tree"]))
    if nreq["kind"] in ("uniform", "equal") and nreq["param"] < 1:
        return None
    want = split_model(pres, nreq["kind"], nreq["param"], a0, a1, nreq["pre"], nreq["post"], nreq["relative"])
    got = call_split(f, req, 0)
    if observe.snap(f) != snap0:
        raise Violation("operand-modified", "split changed its operand")
    observe.wellformed(got, d + 1, "split result")
    if got.coords != [b for b, _, _ in want]:
        raise Violation("upper-coords", f"upper coordinates {got.coords}, expected partition starts "
                        f"{[b for b, _, _ in want]}; fiber={spec['tree']} active=({a0},{a1}) request={req}")
    ua0, ua1 = got.getActive()
    if any(not (ua0 <= b < ua1) for b in got.coords):
        raise Violation("upper-active", f"upper coordinates {got.coords} lie outside the upper fiber's active range "
                        f"({ua0}, {ua1}); parent active=({a0},{a1}) request={req}")
    for (b, (lo, hi), elems), lower in zip(want, got.payloads):
        # the property speaks about the non-empty elements; whether an empty element of the original is
        # carried along into a partition's storage is not specified
        lc, lp = nonempty(lower, d, default)
        if lc != [c for c, _ in elems]:
            raise Violation("partition-elems", f"partition {b} holds non-empty coordinates {lc} (stored "
                            f"{lower.coords}), expected {[c for c, _ in elems]}; fiber={spec['tree']} "
                            f"active=({a0},{a1}) request={req}")
        for (c, i), p in zip(elems, lp):
            orig = spec["tree"][i][1]
            if d == 1:
                if Payload.get(p) != orig or not isinstance(p, Payload):
                    raise Violation("partition-payload", f"partition {b} element {c}: payload {p!r}, original {orig}")
            elif observe.content_of(p, d - 1, default) != model.content_of_tree(orig, d - 1, default):
                raise Violation("partition-payload", f"partition {b} element {c}: sub-tree content changed")
        # (with relative coordinates the statement does not say in which coordinate system the partition
        # reports its interval: the parent's, or its own, i.e. shifted by the partition start)
        if lower.getActive() != (lo, hi) and not (nreq["relative"] and lower.getActive() == (lo - b, hi - b)):
            raise Violation("partition-active", f"partition {b}: active range {lower.getActive()}, expected "
                            f"({lo}, {hi}); request={req} parent active=({a0},{a1})")
    # without halos: every active non-empty element at/after the first boundary exactly once
    if nreq["pre"] == 0 and nreq["post"] == 0:
        seen = sorted(c + (b if nreq["relative"] else 0) for b, _, el in want for c, _ in el)
        bs, step = boundaries(nreq["kind"], nreq["param"], [c for c, _ in pres], a0, a1, None)
        first = -math.inf if step is not None else (bs[0] if bs else math.inf)
        exp = [c for c, _ in pres if a0 <= c < a1 and c >= first]
        if seen != exp:
            raise Violation("lossless", f"halo-free split covers {seen}, active non-empty elements are {exp}")
    return want, got


def nonempty(fiber, d, default):
    """coordinates and payloads of the elements of `fiber` (d levels deep) that are not empty"""
    cs, ps = [], []
    for c, p in zip(fiber.coords, fiber.payloads):
        if (Payload.get(p) != default) if d == 1 else bool(observe.content_of(p, d - 1, default)):
            cs.append(c)
            ps.append(p)
    return cs, ps


def classify(rec, want, req, spec, d, default, extra=""):
    rec.cls(req["kind"])
    halo = req["pre"] or req["post"]
    inhalo = any(not (lo <= (c + (b if req["relative"] else 0)) < hi) for b, (lo, hi), el in want for c, _ in el)
    rec.cls("halo-element", inhalo)
    rec.cls("relative", req["relative"])
    noisy = model.has_explicit_default(spec["tree"], d, default) or model.has_empty_subfiber(spec["tree"], d)
    return len(want) >= 2 and (inhalo or noisy)


def check(case, rec):
    spec = case["spec"]
    d, default, shape = model.depth(spec), spec["default"], spec["shape"]
    req = case["req"]
    if case["how"] == "unowned":
        res = check_fiber(case, rec, spec, req, case["active"])
        if res is None:
            return
        want, got = res
        nt = classify(rec, want, norm_req(req, shape[0], len(spec["tree"])), spec, d, default)
        rec.cls("fiber-level")
        rec.cls("active-range", case["active"] is not None)
        if case["req2"] and not case.get("shift"):
            # re-split every partition: partitions of partitions tile the original
            req2 = case["req2"]
            for (b, (lo, hi), elems), lower in zip(want, got.payloads):
                if len(lower.coords) != len(elems) and req2["kind"] not in ("uniform", "nonuniform", "div"):
                    # empty elements were carried along: position-space chunks of this partition are
                    # not determined by the property
                    continue
                pres2 = [(c, i) for c, i in elems]
                n2 = norm_req(req2, shape[0], len(lower.coords))
                w2 = split_model(pres2, n2["kind"], n2["param"], lo, hi, n2["pre"], n2["post"], n2["relative"])
                g2 = call_split(lower, req2, 0)
                if any(not (g2.getActive()[0] <= bb < g2.getActive()[1]) for bb in g2.coords):
                    raise Violation("upper-active", f"re-split of partition {b} (active {lo},{hi}): upper coordinates "
                                    f"{g2.coords} outside the upper active range {g2.getActive()}; request={req2}")
                if g2.coords != [bb for bb, _, _ in w2]:
                    raise Violation("resplit-upper", f"re-split of partition {b} (active {lo},{hi}) gives upper "
                                    f"coordinates {g2.coords}, expected {[bb for bb, _, _ in w2]}; request={req2}")
                for (bb, rng, el2), l2 in zip(w2, g2.payloads):
                    act_ok = l2.getActive() == rng or \
                        (n2["relative"] and l2.getActive() == (rng[0] - bb, rng[1] - bb))
                    if nonempty(l2, d, default)[0] != [c for c, _ in el2] or not act_ok:
                        raise Violation("resplit-elems", f"re-split partition {b}/{bb}: coords {l2.coords} active "
                                        f"{l2.getActive()}, expected {[c for c, _ in el2]} {rng}")
            rec.cls("resplit")
        rec.nontrivial(nt)
        return

    # ---- tensor level: content oracle per fiber of the rank
    depth = case["depth"]
    t = build.build_tensor(spec, case["how"])
    S = shape[depth]
    if case.get("grown") and len(spec["tree"]) >= 2:
        ext = [0] * d

        def extent(tr, lvl):
            for c, ch in tr:
                ext[lvl] = max(ext[lvl], c + 1)
                if lvl < d - 1:
                    extent(ch, lvl + 1)
        extent(spec["tree"], 0)
        if all(ext):
            k = len(spec["tree"]) // 2
            t = build.build_tensor(dict(spec, tree=spec["tree"][:k], auth=False), "fiber" if k else "ref")
            build._populate(t, spec["tree"][k:], d)
            S = ext[depth]
            rec.cls("grown-undeclared")
    snap0, ranks0 = observe.snap(t.getRoot()), observe.rank_lists(t)
    cont = model.content(spec)

    def expected(cont, req, depth, act_of):
        """content of the split result; act_of(prefix) -> (a0, a1) of the fiber at `depth` under prefix"""
        groups = {}
        for p, v in cont.items():
            groups.setdefault(p[:depth], []).append(p)
        out, nparts, allparts = {}, 0, []
        for prefix, pts in groups.items():
            coords = sorted({p[depth] for p in pts})
            a0, a1 = act_of(prefix)
            nstored = stored_count(spec["tree"], prefix)
            n = norm_req(req, S, nstored)
            parts = split_model([(c, c) for c in coords], n["kind"], n["param"], a0, a1, n["pre"], n["post"],
                                n["relative"])
            nparts = max(nparts, len(parts))
            allparts.append((prefix, parts, n))
            for b, rng, elems in parts:
                for c2, c in elems:
                    for p in pts:
                        if p[depth] == c:
                            out[p[:depth] + (b, c2) + p[depth + 1:]] = cont[p]
        return out, nparts, allparts

    want, nparts, allparts = expected(cont, req, depth, lambda prefix: (0, S))
    r = call_split(t, req, depth)
    if observe.snap(t.getRoot()) != snap0 or observe.rank_lists(t) != ranks0:
        raise Violation("operand-modified", "tensor split changed its operand")
    observe.wellformed(r.getRoot(), d + 1, "split result")
    observe.rank_consistency(r, "split result")
    got = observe.tensor_content(r)
    if got != want:
        raise Violation("tensor-split", f"{req} at depth {depth}: result content {got}, expected {want}; "
                        f"operand {spec['tree']}")
    # active ranges of the lower fibers
    for prefix, parts, n in allparts:
        up = fiber_at(r.getRoot(), prefix)
        if up is None:
            continue
        if [c for c in up.coords if not up.payloads[up.coords.index(c)].isEmpty()] != [b for b, _, _ in parts]:
            raise Violation("upper-coords", f"fiber under {prefix}: upper coordinates {up.coords}, expected "
                            f"{[b for b, _, _ in parts]}")
        for b, rng, _ in parts:
            lower = up.payloads[up.coords.index(b)]
            if lower.getActive() != rng and not (n["relative"] and lower.getActive() == (rng[0] - b, rng[1] - b)):
                raise Violation("partition-active", f"partition {prefix}+({b},): active range {lower.getActive()}, "
                                f"expected {rng}")
    nreq = norm_req(req, S, 1)
    nt = False
    for prefix, parts, n in allparts:
        nt = nt or classify(rec, parts, n, spec, d, default)
    rec.cls("tensor-level")
    rec.cls(f"split-depth{depth}")
    if case["req2"] and d + 1 <= 4:
        req2 = case["req2"]
        # the lower fibers carry their partition interval as active range
        act = {}
        for prefix, parts, n in allparts:
            for b, rng, _ in parts:
                act[prefix + (b,)] = rng
        spec2_tree = None
        S2 = S

        def stored2(prefix):
            up = fiber_at(r.getRoot(), prefix)
            return len(up.coords) if up is not None else 0

        groups = {}
        for p in want:
            groups.setdefault(p[:depth + 1], []).append(p)
        want2 = {}
        for prefix, pts in groups.items():
            coords = sorted({p[depth + 1] for p in pts})
            a0, a1 = act[prefix]
            n2 = norm_req(req2, S2, stored2(prefix))
            parts = split_model([(c, c) for c in coords], n2["kind"], n2["param"], a0, a1, n2["pre"], n2["post"],
                                n2["relative"])
            for b, rng, elems in parts:
                for c2, c in elems:
                    for p in pts:
                        if p[depth + 1] == c:
                            want2[p[:depth + 1] + (b, c2) + p[depth + 2:]] = want[p]
        r2 = call_split(r, req2, depth + 1)
        observe.wellformed(r2.getRoot(), d + 2, "re-split result")
        observe.rank_consistency(r2, "re-split result")
        got2 = observe.tensor_content(r2)
        if got2 != want2:
            raise Violation("resplit", f"re-split {req2} of {req} at depth {depth}: content {got2}, expected {want2}")
        rec.cls("resplit")
    rec.nontrivial(nt)


def stored_count(tree, prefix):
    t = tree
    for c in prefix:
        nxt = [ch for cc, ch in t if cc == c]
        if not nxt:
            return 0
        t = nxt[0]
    return len(t)


def fiber_at(root, prefix):
    f = root
    for c in prefix:
        if c not in f.coords:
            return None
        f = f.payloads[f.coords.index(c)]
    return f


PARTS = [Part("split", cases(), check, n_quick=3000, n_thorough=30000)]


def _pin_p9b():
    f = Fiber([0], [1], shape=4, active_range=(2, 4))
    try:
        r = f.splitEqual(1, pre_halo=2)
    except ValueError as e:
        return f"splitEqual(1, pre_halo=2) of Fiber([0],[1],active_range=(2,4)) raises ValueError: {e}"
    return None


def _pin_p24():
    t = Tensor(rank_ids=["M", "K"], shape=[1, 2])
    t.getPayloadRef(0, 1).__ilshift__(1)
    s2 = t.splitUniform(1, depth=1).splitNonUniform([0], depth=2)
    for f in s2.ranks[2].getFibers():
        a0, a1 = f.getActive()
        if any(not (a0 <= c < a1) for c in f.coords):
            return f"re-split: upper fiber holds coordinates {f.coords} but has active range ({a0}, {a1})"
    try:
        s2.swizzleRanks(["M", "K.1", "K.0.0", "K.0.1"])
    except ValueError as e:
        return f"swizzleRanks of a re-split tensor raises ValueError: {e}"
    return None


PINNED = {"P9b-split-min-empty": _pin_p9b, "P24-split-upper-active-range": _pin_p24}
