"""C10 -- value-returning operations never disturb or alias their operands."""

import contextlib
import copy
import io
import os

from hypothesis import strategies as st

from fibertree import Fiber, Payload, Tensor, TensorImage
from fibertree.model import Format

from .. import build, gen, model, observe, findings
from ..core import Part, Violation

ID = "C10"
RULE = ("A tensor (every construction route, depth 1-3, explicit defaults, empty sub-fibers, non-zero defaults, rank "
        "formats) or an unowned fiber and one operation. Family V (value-returning): the four splits and the infix "
        "shorthands at any depth (Tensor and Fiber forms), swizzle / swap / flatten / unflatten / merge (Tensor and "
        "Fiber forms), Tensor.updateCoords / updatePayloads, f+g, f*g, f+s, f*s, copy(), copy(preserve_owner=False), "
        "deepcopy; followed by a mutation of every leaf box and an insertion on the result, then on the operand. "
        "Family R (read-only): getPayload, getPosition, every non-reference iterator, & | ^ - iteration, ==, isEmpty, "
        "countValues, nonEmpty, getShape / estimateShape / getDepth / getRankIds / minCoord / maxCoord, str / repr / "
        "format / print, uncompress, dump, fiber2dict, Format queries, TensorImage in three styles rendered twice. "
        "Oracle: operand snapshot, rank lists (ids) and attribute values identical before/after; the set of ids of "
        "every fiber, coords/payloads list, payload box, rank and rank-attribute object reachable from the result is "
        "disjoint from the operand's; after mutating one side the other side's snapshot is unchanged; two renderings "
        "have identical pixel buffers. Non-trivial: operand with >=2 levels and >=3 points whose follow-up mutation "
        "changed a value (V), or >=3 points and an explicit default / empty sub-fiber (R). Distinct = SHA-1 of case.")
ASSUMPTIONS = ["aliasing is demanded only of the operations the statement lists (nonEmpty, slicing, concat, extend are "
               "documented to share payloads)",
               "saved-position shortcuts and their statistics are not part of the compared state"]

V_TENSOR = ["splitUniform", "splitNonUniform", "splitEqual", "splitUnEqual", "truediv", "floordiv", "swizzle", "swap",
            "flatten", "merge", "unflatten", "flatten_flattened", "updateCoords", "updatePayloads", "deepcopy"]
V_FIBER = ["f_splitUniform", "f_splitEqual", "f_splitNonUniform", "f_splitUnEqual", "f_swap", "f_flatten", "f_merge",
           "f_unflatten", "f_add_fiber", "f_mul_fiber", "f_add_fiber", "f_add_fiber", "f_add_scalar", "f_mul_scalar", "f_copy", "f_copy_noowner",
           "f_deepcopy", "f_truediv", "f_floordiv", "f_fromFiber",
           # (the copying forms whose sharing only shows for particular arguments / trees get a second draw)
           "f_mul_scalar", "f_add_scalar", "f_copy_noowner", "f_fromFiber"]
R_OPS = ["getPayload", "getPosition", "iterators", "coiterate", "eq", "queries", "strings", "uncompress", "dump",
         "fiber2dict", "format", "image", "image"]


@st.composite
def cases(draw):
    fam = draw(st.sampled_from(["V", "V", "R"]))
    level = draw(st.sampled_from(["tensor", "tensor", "root", "unowned"]))
    if fam == "V":
        op = draw(st.sampled_from(V_TENSOR if level == "tensor" else V_FIBER))
    else:
        op = draw(st.sampled_from(R_OPS))
    d = draw(st.sampled_from([1, 2, 2, 3]))
    if op == "image":
        d = draw(st.sampled_from([1, 2, 3, 4, 2, 3]))   # (the renderer has one code path per dimensionality; 4 ranks cost seconds)
    if op in ("f_add_fiber", "f_mul_fiber"):
        d = draw(st.sampled_from([1, 2, 2, 3, 2]))      # (with fibers below the operand + and * recurse)
    if op == "swizzle":
        d = draw(st.sampled_from([2, 3, 3, 4]))         # (a swizzle may leave the lowest ranks where they are)
    if level == "unowned":
        d = min(d, 2)
    c = {"family": fam, "level": level, "op": op,
         "how": draw(st.sampled_from(["ref", "fiber", "uncompressed", "yaml", "deepcopy"])),
         "sel": draw(st.lists(st.integers(0, 9), min_size=4, max_size=4)),
         "perm": list(draw(st.permutations([0, 1, 2]))) + [3] if d < 4 or draw(st.booleans())
         else list(draw(st.permutations([0, 1, 2, 3]))),
         "style": draw(st.sampled_from(["tuple", "pair"])),
         "mstyle": draw(st.sampled_from(["absolute", "relative"])),
         "fmtU": draw(st.booleans()),
         "alevel": draw(st.sampled_from([1, 2, 0, 1])),      # fiber arithmetic: 0 = at a leaf fiber, else interior
         # (the neutral elements 1 and 0 are "nothing to do" arguments: the result is a new object all the same)
         "val": draw(st.sampled_from([3, 5, -2, 1, 0, 1, 1])),
         "other": draw(st.lists(st.tuples(st.integers(0, 5), st.sampled_from([1, 2, 4, -1, 0])), max_size=4))}
    shape = [draw(st.integers(1, 5)) for _ in range(d)]
    default = draw(st.sampled_from([0, 0, 0, 2]))
    if op in ("f_add_fiber", "f_mul_fiber", "f_add_scalar", "f_mul_scalar"):
        default = 0
    # (read-only operations are also tried on tensors whose shape is not declared but estimated: a query must
    # not turn the estimate into an attribute)
    auth = "any" if fam == "R" else None
    c["spec"] = draw(st.one_of(gen.content_specs(shape, defaults=(default,), max_points=8, min_points=2, p_noise=0.8,
                                                 auth=auth),
                               gen.tree_specs(shape=shape, defaults=(default,), auth=auth)))
    return c


def attrs_of(x):
    """attribute values that must not change (saved positions excluded)"""
    if isinstance(x, Tensor):
        out = {"ids": repr(x.getRankIds()), "shape": repr(x.getShape()), "ashape": repr(x.getShape(authoritative=True)),
               "default": repr(Payload.get(x.getDefault())), "name": x.getName(), "color": x.getColor(),
               "mutable": x.isMutable(), "fmt": [r.getFormat() for r in x.ranks],
               "rdefault": [repr(r.getAttrs()._default) for r in x.ranks],
               "active": [[f._active_range for f in r.getFibers()] for r in x.ranks]}
        return out
    acc = []

    def rec(f):
        a = f._rank_attrs
        acc.append((f._active_range, f._ordered, f._unique, f.getOwner() is None,
                    None if a is None else (a.getId(), repr(a.getShape()), a.getFormat(), a.getEstimatedShape(),
                                            repr(a._default) if not isinstance(a._default, Fiber) else "F")))
        for p in f.payloads:
            if isinstance(p, Fiber):
                rec(p)
    rec(x)
    return acc


class State:
    def __init__(self, x):
        self.x = x
        self.root = x.getRoot() if isinstance(x, Tensor) else x
        self.snap = observe.snap(self.root)
        self.ranks = observe.rank_lists(x) if isinstance(x, Tensor) else None
        self.attrs = attrs_of(x)

    def unchanged(self, where):
        if isinstance(self.x, Tensor) and self.x.ranks:
            observe.rank_consistency(self.x, where)      # owners / rank lists of the operand still mirror its tree
        if observe.snap(self.root) != self.snap:
            raise Violation("operand-modified", f"{where}: tree changed {self.snap} -> {observe.snap(self.root)}")
        if isinstance(self.x, Tensor) and observe.rank_lists(self.x) != self.ranks:
            raise Violation("ranks-modified", f"{where}: rank lists changed")
        if attrs_of(self.x) != self.attrs:
            raise Violation("attrs-modified", f"{where}: attributes changed {self.attrs} -> {attrs_of(self.x)}")


def leaf_boxes(f, acc=None):
    if acc is None:
        acc = []
    if isinstance(f, Fiber):
        for p in f.payloads:
            leaf_boxes(p, acc)
    elif isinstance(f, Payload):
        acc.append(f)
    return acc


def mutate(obj, val):
    """change every leaf box and insert an element at the top; returns True if something changed"""
    root = obj.getRoot() if isinstance(obj, Tensor) else obj
    if not isinstance(root, Fiber):
        return False
    changed = False
    for b in leaf_boxes(root):
        if isinstance(b.value, (int, float)):
            b <<= b.value + val
            changed = True
    # structural change at the top: append a coordinate above the last one
    if root.coords:
        last = root.coords[-1]
        nxt = Fiber._nextCoord(last) if isinstance(last, (int, tuple)) else None
        if nxt is not None:
            proto = root.payloads[-1]
            root.append(nxt, Fiber() if isinstance(proto, Fiber) else 99)
            changed = True
    return changed


def check(case, rec):
    spec = case["spec"]
    d, default, shape = model.depth(spec), spec["default"], spec["shape"]
    ids_ = list(spec["rank_ids"])
    op, level, sel = case["op"], case["level"], case["sel"]
    # ---- operand
    if level == "unowned":
        X = build.build_fiber(spec, name_ranks=True)
        t = None
    else:
        t = build.build_tensor(spec, case["how"])
        if case["fmtU"] and d >= 1 and case["family"] == "R" and op in ("getPayload", "getPosition", "queries", "strings", "format"):
            t.setFormat(ids_[-1], "U")
        X = t if level == "tensor" else t.getRoot()
    holder = t if t is not None else X            # what must stay intact (the whole tensor for a root fiber)
    st0 = State(holder)
    cont = model.content(spec)
    root = X.getRoot() if isinstance(X, Tensor) else X
    depth = sel[0] % d
    S = shape[depth]

    if case["family"] == "R":
        run_readonly(case, X, t, root, spec, rec)
        st0.unchanged(f"read-only {op}")
        noisy = model.has_explicit_default(spec["tree"], d, default) or model.has_empty_subfiber(spec["tree"], d)
        rec.cls("R:" + op)
        rec.nontrivial(len(cont) >= 3 and noisy)
        return

    # ---- value-returning
    pre = None
    res = None
    k = op[2:] if op.startswith("f_") else op
    target = root if op.startswith("f_") else X
    fdepth = depth if not (op.startswith("f_") and level == "unowned") else sel[0] % d
    kw = {"depth": fdepth} if fdepth else {}
    if k == "splitUniform":
        res = target.splitUniform(1 + sel[1] % (S + 1), relativeCoords=bool(sel[2] % 2), **kw)
    elif k == "splitNonUniform":
        res = target.splitNonUniform(sorted({0, sel[1] % (S + 1), sel[2] % (S + 1)}), **kw)
    elif k == "splitEqual":
        res = target.splitEqual(1 + sel[1] % 3, **kw)
    elif k == "splitUnEqual":
        res = target.splitUnEqual([1 + sel[1] % 2, 1 + sel[2] % 2], **kw)
    elif k == "truediv":
        res = target / (1 + sel[1] % 3)
    elif k == "floordiv":
        res = target // (1 + sel[1] % 3)
    elif k == "swizzle":
        perm = [p for p in case["perm"] if p < d]
        res = X.swizzleRanks([ids_[p] for p in perm])
    elif k in ("swap", "flatten", "merge", "unflatten"):
        if d < 2:
            return
        dd = sel[0] % (d - 1)
        if op.startswith("f_"):
            dd = 0 if k in ("swap", "unflatten") else dd
        if k == "swap":
            if not cont:
                return
            res = target.swapRanks(depth=dd) if not op.startswith("f_") else target.swapRanks()
        elif k == "flatten":
            if op.startswith("f_"):
                res = target.flattenRanks(depth=dd, levels=1, style=case["style"])
            else:
                res = target.flattenRanks(depth=dd, levels=1, coord_style=case["style"])
        elif k == "merge":
            if op.startswith("f_"):
                res = target.mergeRanks(depth=dd, levels=1, style=case["mstyle"])
            else:
                res = target.mergeRanks(depth=dd, levels=1, coord_style=case["mstyle"])
        else:
            # the operand under test is the flattened object
            if op.startswith("f_"):
                if not root.coords:
                    return
                pre = root.flattenRanks(depth=0, levels=1, style=case["style"])
                holder2 = pre
            else:
                pre = X.flattenRanks(depth=dd, levels=1, coord_style=case["style"])
                holder2 = pre
            st1 = State(holder2)
            res = pre.unflattenRanks() if op.startswith("f_") else pre.unflattenRanks(depth=dd, levels=1)
            st1.unchanged("unflattenRanks")
            st0.unchanged("flatten + unflatten")
            check_disjoint(res, holder2, "unflattenRanks", rec)
            follow_up(res, holder2, st1, case, rec, "unflattenRanks")
            rec.cls("V:" + op)
            rec.nontrivial(d >= 2 and len(cont) >= 3)
            return
    elif k == "flatten_flattened":
        # the operand under test is itself the result of a flatten: its rank id is a list
        if d < 3:
            return
        dd = sel[0] % (d - 2)
        pre = X.flattenRanks(depth=dd, levels=1, coord_style=case["style"])
        st1 = State(pre)
        res = pre.flattenRanks(depth=dd, levels=1, coord_style=case["style"]) if sel[1] % 2 else \
            pre.mergeRanks(depth=dd, levels=1, coord_style="absolute")
        st1.unchanged("flatten of a flattened tensor")
        st0.unchanged("flatten twice")
        if any(a is b for a in res.getRankIds() for b in pre.getRankIds() if isinstance(a, list)):
            raise Violation("aliasing", "flatten of a flattened tensor shares a rank-id list with its operand")
        check_disjoint(res, pre, "flatten of a flattened tensor", rec)
        follow_up(res, pre, st1, case, rec, "flatten of a flattened tensor")
        rec.cls("V:" + op)
        rec.nontrivial(len(cont) >= 3)
        return
    elif k == "updateCoords":
        res = X.updateCoords(lambda i, c, p: S - 1 - c, depth=depth)
    elif k == "updatePayloads":
        v = case["val"]
        res = X.updatePayloads(lambda i, c, p: p + v, depth=d - 1)
    elif k == "fromFiber":
        # a tensor built from a fiber that already belongs to another tensor gets its own copy
        # (an unowned fiber is adopted, by design)
        if t is None:
            return
        res = Tensor.fromFiber(ids_, root, shape=list(shape), default=default)
    elif k == "deepcopy":
        res = copy.deepcopy(target)
    elif k == "copy":
        res = target.copy()
    elif k == "copy_noowner":
        res = target.copy(preserve_owner=False)
    elif k in ("add_fiber", "mul_fiber", "add_scalar", "mul_scalar"):
        # the left operand is a fiber at a drawn level of the tree (with fibers below it, + and * recurse),
        # the right operand an unowned tree of the same depth
        lf, lvl = root, 0
        alevel = case.get("alevel", 0)
        stop = d - 1 if k in ("add_scalar", "mul_scalar") or alevel == 0 or d == 1 else (alevel - 1) % (d - 1)
        while lvl < stop:
            if not lf.payloads:
                return
            lf = lf.payloads[sel[1] % len(lf.payloads)]
            lvl += 1
        seen = {}
        for c_, v_ in case["other"]:
            seen[c_ % shape[-1]] = v_
        if lvl == d - 1:
            g = Fiber(sorted(seen), [seen[c_] for c_ in sorted(seen)], shape=shape[-1])
        else:
            # the tree below lf, shifted by one coordinate at the top (so that both sides have coordinates
            # of their own) and with other leaf values
            def other_tree(tr, dd, top=True):
                out = []
                for c_, ch in tr:
                    c2 = (c_ + 1) % shape[d - dd] if top else c_
                    out.append([c2, (ch + 1 if ch + 1 != 0 else 2) if dd == 1 else other_tree(ch, dd - 1, False)])
                return sorted(out, key=lambda x: x[0])
            gtree = other_tree(observe.tree_of(lf), d - lvl)
            if d - lvl <= 2:
                g = build.nested_fiber(gtree, d - lvl, shape[lvl:], default)
            else:
                # (an unowned tree only knows the default of the next level: three levels need a tensor)
                g = build.build_tensor({"rank_ids": ids_[lvl:], "shape": shape[lvl:], "default": default,
                                        "tree": gtree}, "ref").getRoot()
            rec.cls("arith-on-interior-fiber")
        gs = State(g)
        if k == "add_fiber":
            res = lf + g
        elif k == "mul_fiber":
            res = lf * g
        elif k == "add_scalar":
            res = (lf + case["val"]) if sel[3] % 2 else (case["val"] + lf)
        else:
            res = (lf * case["val"]) if sel[3] % 2 else (case["val"] * lf)
        gs.unchanged(f"{k} (right operand)")
        check_disjoint(res, g, f"{k} vs right operand", rec)
    else:
        raise ValueError(op)

    st0.unchanged(op)
    check_disjoint(res, holder, op, rec)
    changed = follow_up(res, holder, st0, case, rec, op)
    rec.cls("V:" + op)
    rec.cls("level-" + level)
    rec.nontrivial(d >= 2 and len(cont) >= 3 and changed)


def check_disjoint(res, operand, where, rec):
    a = observe.ids(res)
    b = observe.ids(operand)
    shared = a & b
    if shared:
        kinds = set()
        import gc
        for o in gc.get_objects():
            if id(o) in shared:
                kinds.add(type(o).__name__)
        raise Violation("aliasing", f"{where}: result shares {len(shared)} mutable object(s) with its operand "
                        f"({sorted(kinds)})")


def follow_up(res, holder, st0, case, rec, where):
    """mutate the result -> operand unchanged; mutate the operand -> result unchanged"""
    changed = mutate(res, case["val"] or 9)
    st0.unchanged(f"{where}: after mutating the result")
    rroot = res.getRoot() if isinstance(res, Tensor) else res
    rsnap = observe.snap(rroot)
    changed2 = mutate(holder, (case["val"] + 1) or 11)
    if observe.snap(rroot) != rsnap:
        raise Violation("aliasing", f"{where}: mutating the operand changed the result")
    return changed or changed2


def run_readonly(case, X, t, root, spec, rec):
    op, sel = case["op"], case["sel"]
    d, default, shape = model.depth(spec), spec["default"], spec["shape"]
    pt = tuple(sel[i] % shape[i] for i in range(d))
    sink = io.StringIO()
    if op == "getPayload":
        X.getPayload(*pt)
        X.getPayload(*pt[:1 + sel[3] % d])
        X.getPayload(*pt, allocate=False, default=7)
    elif op == "getPosition":
        root.getPosition(pt[0])
        if root.coords:
            root.getPosition(root.coords[-1], start_pos=0)
    elif op == "iterators":
        for _ in root:
            pass
        for _ in root.iterOccupancy():
            pass
        for _ in root.iterShape():
            pass
        for _ in root.iterActive():
            pass
        for _ in root.iterActiveShape():
            pass
        for _ in root.iterRange(0, shape[0]):
            pass
        for _ in root.iterRangeShape(0, shape[0], 2):
            pass
        for _ in reversed(root):
            pass
        for _ in Fiber.coiterShape([root]):
            pass
        for _ in root.project(trans_fn=lambda c: c + 1):
            pass
        for _ in root.prune(trans_fn=lambda i, c, p: True):
            pass
    elif op == "coiterate":
        other = build.build_tensor(dict(spec, tree=spec["tree"][::2]), "ref")
        o = other.getRoot()
        so = State(other)
        for lazy in (root & o, root | o, root ^ o, root - o, o | root, o - root,
                     Fiber.intersection(root, o), Fiber.union(root, o),
                     Fiber.intersection(root, o, style="leader-follower")):
            for _ in lazy:
                pass
        so.unchanged("co-iteration (second operand)")
    elif op == "eq":
        other = copy.deepcopy(X)
        _ = (X == other)
        oroot = other.getRoot() if isinstance(other, Tensor) else other
        if oroot.coords:
            for b in leaf_boxes(oroot)[:1]:
                b <<= 77
        so = State(other)
        _ = (X == other)
        _ = (other == X)
        so.unchanged("== (second operand)")
    elif op == "queries":
        root.isEmpty()
        X.countValues()
        root.nonEmpty()
        X.getShape()
        root.getShape(all_ranks=False)
        root.estimateShape()
        X.getDepth()
        X.getRankIds()
        root.minCoord()
        root.maxCoord()
        root.getActive()
        root.getDefault()
        len(root)
        if root.coords:
            root[0]
            root[-1]
            root[0:1]
    elif op == "strings":
        with contextlib.redirect_stdout(sink):
            str(X)
            repr(X)
            f"{X}"
            f"{root:n*}"
            X.print("title")
            if t is not None:
                for r in t.ranks:
                    str(r)
                    repr(r)
    elif op == "uncompress":
        root.uncompress()
        root.uncompress(shape=list(shape))
    elif op == "dump":
        path = os.path.join(build.tmpdir(), f"c10-{os.getpid()}.yaml")
        X.dump(path)
        os.remove(path)
    elif op == "fiber2dict":
        root.fiber2dict()
    elif op == "format":
        if t is None:
            return
        ids = t.getRankIds()
        fspec = {r: {"format": "U" if (i + sel[3]) % 2 else "C", "rhbits": 1, "fhbits": 2, "cbits": 3, "pbits": 4}
                 for i, r in enumerate(ids)}
        f = Format(t, fspec)
        f.getTensor()
        for r in ids:
            f.getRank(r)
        f.getSubTree()
        f.getSubTree(*pt[:1])
        f.getSubTree(*pt)
        if d > 1:
            f.getFiber(*pt[:d - 1])
        f.getFiber()
    elif op == "image":
        if (sel[3] % 3 and d < 4) or t is None:
            return          # images are slow: rendered in a third of these cases (tensors, as the statement says)
        X = t
        # with and without highlights: a full point, and a partial point (a whole sub-tensor is highlighted then)
        hls = [{}]
        if sel[2] % 3 == 0:
            hls += [{"PE": [tuple(pt)]}, {"PE": [tuple(pt[:max(1, d - 1)])]}]
            rec.cls("image-highlights")
        first = {}
        for rnd in range(2):
            for hi, hl in enumerate(hls):
                for style in ("tree", "uncompressed", "tree+uncompressed"):
                    a = TensorImage(X, style=style, highlights=copy.deepcopy(hl)).im
                    b = TensorImage(X, style=style, highlights=copy.deepcopy(hl)).im
                    if a.size != b.size or a.tobytes() != b.tobytes():
                        raise Violation("image-determinism", f"two renderings of the same tensor differ (style {style}, "
                                        f"highlights {hl})")
                    # ... and the same picture again after renderings with other highlights in between
                    key = (hi, style)
                    if key in first and first[key] != (a.size, a.tobytes()):
                        raise Violation("image-determinism", f"rendering (style {style}, highlights {hl}) differs from the "
                                        f"same rendering made before others with other highlights")
                    first.setdefault(key, (a.size, a.tobytes()))
            if len(hls) == 1:
                break
        rec.cls("image-rendered")


PARTS = [Part("ops", cases(), check, n_quick=2500, n_thorough=20000)]


def _pin_p16():
    f = Fiber([(0, 1), (2, 3)], [5, 6], shape=(4, 4))
    u = f.unflattenRanks()
    shared = observe.ids(u) & observe.ids(f)
    if shared:
        return f"Fiber.unflattenRanks() result shares {len(shared)} payload object(s) with its operand"
    return None


PINNED = {"P16-fiber-unflatten-shares-payloads": _pin_p16}
