"""C19 -- intersection and merge cost models count what the hardware idiom would do."""

import copy

from hypothesis import strategies as st

from fibertree import Fiber, Metrics, Payload, Tensor
from fibertree.model import (Compute, LeaderFollowerIntersector, SkipAheadIntersector,
                             TwoFingerIntersector)

from .. import build, findings
from ..core import Part, Violation

ID = "C19"

FID_P14 = "P14-intersector-oneshot-leftover-head"
FID_RADIX_N = "C19-numswaps-radix-N-typeerror"

RULE = ("Part 'intersect': 1-4 consecutive K-fiber pairs under 0-2 outer ranks with lexicographically "
        "increasing outer coordinates (pair kinds: random, identical, disjoint blocks, strictly interleaved, "
        "subset, one/both sides empty, match-then-tail; explicit zero payloads mixed in), either as loose "
        "fibers driven by an outer index fiber (the idiom of test_intersector.py) or as two tensors co-iterated "
        "with & at every level. Each case is executed once per batching (fiber by fiber, one shot, a drawn "
        "partition into consecutive groups, and the coarsest partition that cuts after every fiber ending with "
        "an uncompared traced head); inside a Metrics session with consumable intersect_0/1 traces the loop nest "
        "runs `for _ in a_k & b_k`, and after each group the consumed rows are handed to TwoFinger, SkipAhead "
        "and two LeaderFollower models. Oracle (no library code): a two-finger walk over the presented "
        "(non-zero) coordinate lists gives the step string over {A,B,M}; two-finger = its length, skip-ahead "
        "= matches + maximal blocks of A + maximal blocks of B, leader-follower(x) = elements of x consumed + 1 "
        "if x still has a head when the other side runs out; totals are sums over fibers for every batching. "
        "Non-trivial: >=2 fibers, both operands non-empty in one of them, a same-side run of length >=2. "
        "Part 'swaps': canonical 2- and 3-level tensors (0-6 lists of 1-5 coordinates from a range of 8, so ties "
        "are common), depth 0/1, radix 2..8, 100, inf, latency 1..5 or 'N', two independent payload assignments, "
        "several construction routes. Oracle: finite latency L -> L * sum over rounds (lists in round + all "
        "elements), rounds n -> ceil(n/r) until 1; 'N' -> an explicit priority-queue simulation on the real "
        "coordinates charging 1 + (queued heads that pop before the new one) per insertion; equal result for "
        "both payload assignments and on a second call. Non-trivial: >=2 lists, one of length >=2, and (>=2 "
        "rounds or latency 'N'). Distinct = SHA-1 of the generated case.")

ASSUMPTIONS = [
    "fibers are ordered/unique with integer coordinates; K fibers carry the rank id 'K' and the outer "
    "coordinates of consecutive fibers increase lexicographically (one pass of a concordant loop nest), "
    "which is how the models tell fibers apart",
    "Metrics.trace(..., consumable=True) is issued before the first iteration so that the header is the "
    "first row of the first batch (every pinned test does this)",
    "the coordinate lists of an intersection are the elements the operands present (non-zero payloads)",
    "swap model: sub-fibers are non-empty and payloads non-zero (what counts as a list / an element for "
    "stored-but-empty entries is not stated); radix >= 2",
    "ties between equal coordinates of different lists in the 'N' model are resolved as pinned by "
    "test_num_swaps_undefined_next (the later list pops first)",
]

# ===================================================================== oracle


def present(elems):
    """coordinates an operand presents: stored elements with a non-zero payload"""
    return [c for c, v in elems if v != 0]


def walk(a, b):
    """two-finger walk; returns (step string, consumed a, consumed b)"""
    i = j = 0
    steps = []
    while i < len(a) and j < len(b):
        if a[i] == b[j]:
            steps.append("M")
            i += 1
            j += 1
        elif a[i] < b[j]:
            steps.append("A")
            i += 1
        else:
            steps.append("B")
            j += 1
    return "".join(steps), i, j


def fiber_oracle(a, b):
    steps, i, j = walk(a, b)
    runs = 0
    prev = None
    for s in steps:
        if s == "M" or s != prev:
            runs += 1
        prev = s
    longest = 0
    cur = 0
    prev = None
    for s in steps:
        cur = cur + 1 if (s == prev and s != "M") else 1
        if s != "M":
            longest = max(longest, cur)
        prev = s
    # side holding a head that was traced but never compared
    dangling = None
    if i < len(a) and (not steps or steps[-1] == "M"):
        dangling = "a"
    if j < len(b) and (not steps or steps[-1] == "M"):
        dangling = "b"
    return {"tf": len(steps), "sa": runs,
            "lf0": i + (1 if i < len(a) else 0), "lf1": j + (1 if j < len(b) else 0),
            "steps": steps, "longest_run": longest, "dangling": dangling,
            "rows_a": len(a) > 0, "rows_b": len(b) > 0}


def p14_shape(orc, lo, hi):
    """batch [lo, hi) contains a fiber that ends with an uncompared traced head
    while the *other* operand still has rows later in the same batch"""
    for f in range(lo, hi):
        d = orc[f]["dangling"]
        if d is None:
            continue
        other = "rows_b" if d == "a" else "rows_a"
        if any(orc[g][other] for g in range(f + 1, hi)):
            return True
    return False


def rounds(n, radix):
    """number of lists at the start of each merge round"""
    out = []
    while n > 1:
        out.append(n)
        r = n if radix > n else radix
        n = -(-n // r)
    return out


def swaps_finite(lists, radix, lat):
    elems = sum(len(x) for x in lists)
    return lat * sum(n + elems for n in rounds(len(lists), radix))


def queue_merge(lists):
    """priority-queue merge of ascending lists; cost of inserting a head is
    1 + number of queued heads that pop before it (smaller coordinate, or equal
    coordinate from a later list)"""
    queue = []
    cost = 0
    nxt = [0] * len(lists)

    def before(e, n):
        return e[0] < n[0] or (e[0] == n[0] and e[1] > n[1])

    def insert(n):
        k = 0
        while k < len(queue) and before(queue[k], n):
            k += 1
        queue.insert(k, n)
        return k + 1

    for i, x in enumerate(lists):
        cost += insert((x[0], i))
        nxt[i] = 1
    out = []
    while queue:
        c, i = queue.pop(0)
        out.append(c)
        if nxt[i] < len(lists[i]):
            cost += insert((lists[i][nxt[i]], i))
            nxt[i] += 1
    return cost, out


def swaps_unbounded(lists, radix):
    lists = [list(x) for x in lists]
    total = 0
    while len(lists) > 1:
        r = len(lists) if radix > len(lists) else radix
        new = []
        for g in range(0, len(lists), r):
            c, merged = queue_merge(lists[g:g + r])
            total += c
            new.append(merged)
        lists = new
    return total


def swaps_oracle(tree, levels, depth, radix, lat):
    if depth > 0:
        return sum(swaps_oracle(ch, levels - 1, depth - 1, radix, lat) for _, ch in tree)
    lists = [[c for c, _ in ch] for _, ch in tree]
    if lat == "N":
        return swaps_unbounded(lists, radix)
    return swaps_finite(lists, radix, lat)


# ================================================================= generation

VALS = [1, 2, 3, 5, -1, 7]
PAIR_KINDS = ["random", "random", "random", "identical", "disjoint", "interleaved", "subset",
              "empty-a", "empty-b", "both-empty", "match-tail", "match-tail"]


@st.composite
def coord_list(draw, lo, hi, min_size=0, max_size=6):
    s = draw(st.sets(st.integers(lo, hi), min_size=min_size, max_size=max_size))
    return sorted(s)


@st.composite
def pair(draw, nonempty):
    kind = draw(st.sampled_from(PAIR_KINDS))
    if nonempty and kind in ("empty-a", "empty-b", "both-empty"):
        kind = "random"
    m = 1 if nonempty else 0
    if kind == "random":
        a = draw(coord_list(0, 11, m))
        b = draw(coord_list(0, 11, m))
    elif kind == "identical":
        a = draw(coord_list(0, 11, m))
        b = list(a)
    elif kind == "disjoint":
        a = draw(coord_list(0, 5, max(m, 1), 4))
        b = draw(coord_list(6, 11, max(m, 1), 4))
        if draw(st.booleans()):
            a, b = b, a
    elif kind == "interleaved":
        n = draw(st.integers(1, 4))
        a = [2 * k for k in range(n)]
        b = [2 * k + 1 for k in range(n - draw(st.integers(0, 1)))] or [1]
        if draw(st.booleans()):
            a, b = b, a
    elif kind == "subset":
        a = draw(coord_list(0, 11, 2))
        keep = draw(st.lists(st.booleans(), min_size=len(a), max_size=len(a)))
        b = [c for c, k in zip(a, keep) if k] or [a[-1]]
        if draw(st.booleans()):
            a, b = b, a
    elif kind == "empty-a":
        a, b = [], draw(coord_list(0, 11, 1, 4))
    elif kind == "empty-b":
        a, b = draw(coord_list(0, 11, 1, 4)), []
    elif kind == "both-empty":
        a, b = [], []
    else:  # match-tail: the last comparison is a match that exhausts one side only
        common = draw(coord_list(0, 7, 1, 3))
        extra = draw(coord_list(0, common[-1], 0, 3))
        tail = draw(coord_list(common[-1] + 1, 12, 1, 3))
        a = sorted(set(common) | set(extra))
        b = common + tail
        if draw(st.booleans()):
            a, b = b, a

    def elems(cs):
        out = []
        for k, c in enumerate(cs):
            v = draw(st.sampled_from(VALS))
            out.append([c, v])
        return out

    ea, eb = elems(a), elems(b)
    # explicit zero payloads: stored but not presented
    if draw(st.sampled_from([False] * 5 + [True])):
        side = draw(st.sampled_from([ea, eb]))
        taken = {c for c, _ in side}
        free = [c for c in range(0, 13) if c not in taken]
        for c in draw(st.lists(st.sampled_from(free), min_size=1, max_size=2, unique=True)):
            side.append([c, 0])
        side.sort()
    return [ea, eb]


@st.composite
def intersect_cases(draw):
    n = draw(st.sampled_from([1, 2, 2, 3, 3, 4, 4]))
    mode = draw(st.sampled_from(["loose", "loose", "tensor"]))
    od = draw(st.sampled_from([0, 1, 1] if n == 1 and mode == "loose" else [1, 1, 1, 2]))
    pairs = [draw(pair(nonempty=(mode == "tensor"))) for _ in range(n)]
    if od == 0:
        outer = [[]]
    elif od == 1:
        outer = [[j] for j in draw(coord_list(0, 9, n, n))]
    else:
        pts = draw(st.sets(st.tuples(st.integers(0, 3), st.integers(0, 4)), min_size=n, max_size=n))
        outer = [list(p) for p in sorted(pts)]
    # a partition of the fibers into consecutive batches
    cuts = [draw(st.booleans()) for _ in range(n - 1)]
    part = []
    size = 1
    for c in cuts:
        if c:
            part.append(size)
            size = 1
        else:
            size += 1
    part.append(size)
    return {"mode": mode, "outer": outer, "pairs": pairs, "partition": part}


@st.composite
def swap_tree(draw, levels, sizes):
    """canonical tree: every sub-fiber non-empty, every leaf non-zero;
    sizes[0] = admissible element counts of this level"""
    n = draw(st.sampled_from(sizes[0]))
    cs = draw(coord_list(0, 7, n, n))
    out = []
    for c in cs:
        if levels == 1:
            out.append([c, draw(st.sampled_from(VALS))])
        else:
            out.append([c, draw(swap_tree(levels - 1, sizes[1:]))])
    return out


TOP = [0, 1, 2, 2, 3, 3, 4, 5, 6]
MID = [1, 2, 2, 3, 3, 4, 5]
LEAF = [1, 2, 2, 3, 3, 4, 5]


def count_leaves(tree, levels):
    if levels == 1:
        return len(tree)
    return sum(count_leaves(ch, levels - 1) for _, ch in tree)


@st.composite
def swap_cases(draw):
    levels = draw(st.sampled_from([2, 2, 2, 3, 3, 4]))
    depth = 0 if levels == 2 else draw(st.sampled_from([0, 1, 1] if levels == 3 else [2, 2, 1, 0]))
    if levels == 2:
        tree = draw(swap_tree(2, [TOP, LEAF]))
    elif levels == 4:
        # (depth 2: the swapped rank sits below two outer ranks)
        tree = draw(swap_tree(4, [[1, 2, 2, 3], [1, 2, 2], [1, 2, 3], [1, 2]]))
    elif depth == 0:
        tree = draw(swap_tree(3, [TOP, [1, 2, 3], [1, 2]]))
    else:
        tree = draw(swap_tree(3, [[0, 1, 2, 2, 3], MID, [1, 2, 3]]))
    radix = draw(st.sampled_from([2, 2, 2, 3, 3, 4, 5, 8, 100, "inf", "inf", "inf"]))
    if draw(st.sampled_from([False] * 24 + [True])):
        radix = "N"
    lat = draw(st.sampled_from([1, 2, 3, 4, 5, "N", "N", "N", "N", "N"]))
    nl = count_leaves(tree, levels)
    vals2 = draw(st.lists(st.sampled_from(VALS + [11, -4, 0.5, 0, 0, 0]), min_size=nl, max_size=nl))
    return {"levels": levels, "depth": depth, "tree": tree, "radix": radix, "latency": lat,
            "vals2": vals2, "route": draw(st.sampled_from(["ref", "fiber", "uncompressed", "deepcopy"]))}


# ==================================================================== drivers

def leaf(elems):
    f = Fiber([c for c, _ in elems], [v for _, v in elems])
    f.getRankAttrs().setId("K")
    return f


def build_loose(case):
    """outer index fiber(s) whose leaf payload is 1 + index of the K-fiber pair"""
    fibers = [(leaf(a), leaf(b)) for a, b in case["pairs"]]
    outer = case["outer"]
    od = len(outer[0])
    if od == 0:
        top = None
    elif od == 1:
        top = Fiber([o[0] for o in outer], [k + 1 for k in range(len(outer))])
        top.getRankAttrs().setId("J")
    else:
        groups = {}
        for k, (i, j) in enumerate(outer):
            groups.setdefault(i, []).append((j, k + 1))
        subs = []
        for i in sorted(groups):
            s = Fiber([j for j, _ in groups[i]], [k for _, k in groups[i]])
            s.getRankAttrs().setId("J")
            subs.append(s)
        top = Fiber(sorted(groups), subs)
        top.getRankAttrs().setId("I")
    return fibers, top, od


def run_loose(built, after):
    fibers, top, od = built

    def inner(idx):
        a_k, b_k = fibers[idx]
        for _ in a_k & b_k:
            pass
        after()

    if od == 0:
        inner(0)
    elif od == 1:
        for _, idx in top:
            inner(Payload.get(idx) - 1)
    else:
        for _, c_j in top:
            for _, idx in c_j:
                inner(Payload.get(idx) - 1)


def build_tensors(case):
    outer = case["outer"]
    od = len(outer[0])
    ids = ["I", "J", "K"][3 - (od + 1):]

    def side(s):
        if od == 1:
            root = Fiber([o[0] for o in outer],
                         [Fiber([c for c, _ in p[s]], [v for _, v in p[s]]) for p in case["pairs"]])
        else:
            groups = {}
            for (i, j), p in zip(outer, case["pairs"]):
                groups.setdefault(i, []).append((j, Fiber([c for c, _ in p[s]], [v for _, v in p[s]])))
            root = Fiber(sorted(groups),
                         [Fiber([j for j, _ in groups[i]], [f for _, f in groups[i]]) for i in sorted(groups)])
        return Tensor.fromFiber(rank_ids=ids, fiber=root)

    return side(0), side(1), od


def run_tensors(built, after):
    ta, tb, od = built

    def level(a, b, d):
        if d == 0:
            for _ in a & b:
                pass
            after()
            return
        for _, (x, y) in a & b:
            level(x, y, d - 1)

    level(ta.getRoot(), tb.getRoot(), od)


MODELS = [("tf", TwoFingerIntersector, 2), ("sa", SkipAheadIntersector, 2),
          ("lf0", LeaderFollowerIntersector, 0), ("lf1", LeaderFollowerIntersector, 1)]


def session(case, sizes, only=None):
    """Run the loop nest once; hand the rows consumed after each batch to every
    model.  Returns {model: total | ("assert", batch index)}.
    only = 0 | 1: a leader-follower unit sits at ONE operand, so only that operand's trace is declared (and only
    its model is fed)."""
    built = build_loose(case) if case["mode"] == "loose" else build_tensors(case)
    ends = set()
    s = 0
    for z in sizes:
        s += z
        ends.add(s)
    models = {name: cls() for name, cls, _ in MODELS}
    dead = {}
    state = {"done": 0, "batch": 0}
    assert not Metrics.isCollecting()
    Metrics.beginCollect()
    try:
        if only != 1:
            Metrics.trace("K", "intersect_0", consumable=True)
        if only != 0:
            Metrics.trace("K", "intersect_1", consumable=True)

        def after():
            state["done"] += 1
            if state["done"] not in ends:
                return
            if only is not None:
                models[f"lf{only}"].addTraces(Metrics.consumeTrace("K", f"intersect_{only}"))
                state["batch"] += 1
                return
            t0 = Metrics.consumeTrace("K", "intersect_0")
            t1 = Metrics.consumeTrace("K", "intersect_1")
            # the same consumed lists go to every model, in an order that differs from case to case: a model
            # must not change the rows it is given
            k0, k1 = copy.deepcopy(t0), copy.deepcopy(t1)
            rot = len(case["pairs"]) % len(MODELS)
            for name, _, arity in MODELS[rot:] + MODELS[:rot]:
                if (t0, t1) != (k0, k1):
                    raise Violation("traces-modified", f"a cost model changed the trace rows it was given "
                                    f"(batch {state['batch']}, before model {name})")
                if name in dead:
                    continue
                m = models[name]
                if arity == 2:
                    try:
                        m.addTraces(t0, t1)
                    except AssertionError:
                        # the models' own "both fingers in the same fiber" assertion
                        dead[name] = state["batch"]
                elif arity == 0:
                    m.addTraces(t0)
                else:
                    m.addTraces(t1)
            if (t0, t1) != (k0, k1):
                raise Violation("traces-modified", f"a cost model changed the trace rows it was given (batch {state['batch']})")
            state["batch"] += 1

        if case["mode"] == "loose":
            run_loose(built, after)
        else:
            run_tensors(built, after)
    finally:
        # drain so that endCollect's "fully consumed" assertion is about the
        # library, not about an early exit of the harness
        for t in ("intersect_0", "intersect_1"):
            if Metrics.isTraced("K", t):
                Metrics.consumeTrace("K", t)
        Metrics.endCollect()
    if state["done"] != len(case["pairs"]):
        raise Violation("loop-nest", f"the loop nest visited {state['done']} fiber pairs, "
                        f"{len(case['pairs'])} were built: {case}")
    out = {}
    for name, _, _ in MODELS:
        out[name] = ("assert", dead[name]) if name in dead else models[name].getNumIntersects()
    return out


def check_intersect(case, rec):
    pairs = case["pairs"]
    n = len(pairs)
    lists = [(present(a), present(b)) for a, b in pairs]
    orc = [fiber_oracle(a, b) for a, b in lists]
    want = {k: sum(o[k] for o in orc) for k in ("tf", "sa", "lf0", "lf1")}

    # batchings: fiber by fiber, one shot, drawn partition, coarsest partition
    # that cuts behind every fiber ending with an uncompared head
    safe = []
    size = 0
    for f in range(n):
        size += 1
        if orc[f]["dangling"] is not None or f == n - 1:
            safe.append(size)
            size = 0
    batchings = []
    for name, sizes in (("fiber-by-fiber", [1] * n), ("one-shot", [n]),
                        ("partition", list(case["partition"])), ("safe-partition", safe)):
        if sizes not in [s for _, s in batchings]:
            batchings.append((name, sizes))

    p14_open = findings.is_open(ID, FID_P14)
    saw_p14 = False
    exact_multi = False
    for bname, sizes in batchings:
        got = session(case, sizes)
        bounds = []
        lo = 0
        for z in sizes:
            bounds.append((lo, lo + z))
            lo += z
        shaped = any(p14_shape(orc, lo, hi) for lo, hi in bounds)
        exact_multi = exact_multi or (len(sizes) < n and not shaped)
        for name, _, arity in MODELS:
            g = got[name]
            if g == want[name]:
                continue
            shown = f"AssertionError in addTraces (batch {g[1]})" if isinstance(g, tuple) else g
            desc = (f"{name} model fed {bname} {sizes}: got {shown}, independent merge gives {want[name]} "
                    f"(fiber by fiber: {[o[name] for o in orc]}); presented lists {lists}, "
                    f"outer {case['outer']}, mode {case['mode']}")
            if arity == 2 and shaped:
                # P14: a batch spanning fibers in which a fiber ends with a traced
                # but uncompared head and the other operand has later rows
                saw_p14 = True
                if p14_open:
                    rec.known(FID_P14)
                    continue
                raise Violation("batch-" + name, "[P14 shape] " + desc)
            if isinstance(g, tuple):
                raise Violation("crash", desc)
            raise Violation(("count-" if sizes == [1] * n else "batch-") + name, desc)

    # a leader-follower unit needs the trace of its own operand only
    k = len(pairs) % 3
    if k < 2:
        for sizes in ([1] * n, [n]):
            g = session(case, sizes, only=k)[f"lf{k}"]
            if g != want[f"lf{k}"]:
                raise Violation(f"count-lf{k}", f"lf{k} model in a session that declares only intersect_{k}, batches {sizes}: "
                                f"got {g}, the operand presents {want[f'lf{k}']} elements; presented lists {lists}, "
                                f"outer {case['outer']}, mode {case['mode']}")
        rec.cls("single-trace-session")

    # classification
    kinds = set()
    for (a, b), o in zip(lists, orc):
        if not a and not b:
            kinds.add("both-empty")
        elif not a or not b:
            kinds.add("one-side-empty")
        elif a == b:
            kinds.add("identical")
        elif not set(a) & set(b):
            kinds.add("interleaved" if ("AB" in o["steps"] or "BA" in o["steps"]) else "disjoint")
        else:
            kinds.add("partial-overlap")
        if o["dangling"]:
            kinds.add("dangling-head")
    for k in kinds:
        rec.cls(k)
    rec.cls(f"fibers{n}")
    rec.cls(f"outer{len(case['outer'][0])}")
    rec.cls(case["mode"])
    rec.cls("explicit-zero", any(len(present(e)) != len(e) for p in pairs for e in p))
    rec.cls("p14-shape-one-shot", p14_shape(orc, 0, n))
    rec.cls("p14-deviation", saw_p14)
    rec.cls("multi-fiber-batch-exact", exact_multi)
    run2 = any(o["longest_run"] >= 2 for o in orc)
    rec.cls("run>=2", run2)
    rec.nontrivial(n >= 2 and any(a and b for a, b in lists) and run2)


# ---------------------------------------------------------------------- swaps

def revalue(tree, levels, vals, pos=None):
    pos = pos if pos is not None else [0]
    out = []
    for c, ch in tree:
        if levels == 1:
            out.append([c, vals[pos[0]]])
            pos[0] += 1
            # explicit zeros are payload values like any other ("unaffected by payload values"), but a
            # list must keep a non-zero value: a list holding only zeros is an empty sub-fiber, and what an
            # empty list costs is not stated
            if c == tree[-1][0] and all(v == 0 for _, v in out):
                out[0][1] = 1
        else:
            out.append([c, revalue(ch, levels - 1, vals, pos)])
    return out


def check_swaps(case, rec):
    levels, depth, tree = case["levels"], case["depth"], case["tree"]
    radix = float("inf") if case["radix"] == "inf" else case["radix"]
    lat = case["latency"]
    ids = {2: ["M", "K"], 3: ["M", "N", "K"], 4: ["M", "N", "J", "K"]}[levels]
    spec = {"rank_ids": ids, "shape": [8] * levels, "default": 0, "tree": tree, "auth": True}
    t1 = build.build_tensor(spec, case["route"])
    spec2 = dict(spec, tree=revalue(tree, levels, case["vals2"]))
    t2 = build.build_tensor(spec2, "fiber")
    before = copy.deepcopy(t1)

    groups = [tree]
    for _ in range(depth):
        groups = [ch for g in groups for _, ch in g]
    nlists = max([len(g) for g in groups] or [0])

    if radix == "N":
        # documented as Union[int, "N"]; only meaningful when something is merged
        rec.cls("radix-N")
        try:
            got = Compute.numSwaps(t1, depth, radix, lat)
        except TypeError as e:
            if nlists < 2:
                raise
            if findings.is_open(ID, FID_RADIX_N):
                rec.known(FID_RADIX_N)
                return
            raise Violation("crash", f"numSwaps(radix='N') raised TypeError: {e}; tree {tree}")
        wantN = swaps_oracle(tree, levels, depth, float("inf"), lat)
        if got != wantN:
            raise Violation("swaps-radix-N", f"numSwaps(depth={depth}, radix='N', latency={lat!r}) = {got}, "
                            f"unbounded radix gives {wantN}; tree {tree}")
        return

    want = swaps_oracle(tree, levels, depth, radix, lat)
    got = Compute.numSwaps(t1, depth, radix, lat)
    if got != want:
        raise Violation("swaps", f"numSwaps(depth={depth}, radix={radix}, latency={lat!r}) = {got}, "
                        f"expected {want}; tree {tree}")
    again = Compute.numSwaps(t1, depth, radix, lat)
    if again != got:
        raise Violation("swaps-repeat", f"second numSwaps call gives {again}, first gave {got}; tree {tree}")
    if not (t1 == before):
        raise Violation("swaps-mutates", f"numSwaps changed its operand; tree {tree}")
    got2 = Compute.numSwaps(t2, depth, radix, lat)
    if got2 != got:
        raise Violation("swaps-payload", f"numSwaps depends on payload values: {got} with {tree}, "
                        f"{got2} with payloads {case['vals2']}")

    nrounds = max([len(rounds(len(g), radix)) for g in groups] or [0])
    ties = False
    for g in groups:
        seen = set()
        for _, ch in g:
            cs = {c for c, _ in ch}
            ties = ties or bool(seen & cs)
            seen |= cs
    rec.cls("latency-N", lat == "N")
    rec.cls("multi-round", nrounds >= 2)
    rec.cls("ragged-last-group", any(len(g) > 1 and radix < len(g) and len(g) % radix for g in groups))
    rec.cls("ties", ties)
    rec.cls(f"levels{levels}-depth{depth}")
    rec.cls("nothing-to-merge", nlists < 2)
    rec.cls("radix-unbounded", radix == float("inf"))
    rec.nontrivial(nlists >= 2 and any(len(ch) >= 2 for g in groups for _, ch in g)
                   and (nrounds >= 2 or lat == "N"))


# --------------------------------------------------------------------- pinned

def _pinned_p14():
    case = {"mode": "loose", "outer": [[0], [1]],
            "pairs": [[[[2, 1]], [[2, 1], [5, 1]]], [[[7, 1]], [[7, 1]]]], "partition": [2]}
    fbf = session(case, [1, 1])
    one = session(case, [2])
    bad = [f"{m}: one-shot {one[m]} vs fiber-by-fiber {fbf[m]}" for m in ("tf", "sa")
           if one[m] != fbf[m] or one[m] != 2]
    if bad:
        return ("a=[2] b=[2,5] under J=0 then a=[7] b=[7] under J=1, two comparisons in total; " + "; ".join(bad))
    return None


def _pinned_radix_n():
    t = Tensor.fromFiber(rank_ids=["M", "K"], fiber=Fiber([0, 1], [Fiber([1], [1]), Fiber([2], [1])]))
    try:
        got = Compute.numSwaps(t, 0, "N", 1)
    except TypeError as e:
        return f"numSwaps(tensor, 0, 'N', 1) raised TypeError: {e}"
    return None if got == 4 else f"numSwaps(tensor, 0, 'N', 1) = {got}, expected 4"


PINNED = {FID_P14: _pinned_p14, FID_RADIX_N: _pinned_radix_n}

PARTS = [Part("intersect", intersect_cases(), check_intersect, n_quick=3000, n_thorough=8000),
         Part("swaps", swap_cases(), check_swaps, n_quick=2500, n_thorough=8000)]


def coverage_warnings(rec):
    out = []
    ni = sum(v for k, v in rec.classes.items() if k.startswith("intersect:fibers"))
    ns = max(1, rec.evaluations - ni)
    ni = max(1, ni)
    for k, n, floor in (("intersect:run>=2", ni, 0.3), ("intersect:dangling-head", ni, 0.2),
                        ("intersect:multi-fiber-batch-exact", ni, 0.3), ("intersect:one-side-empty", ni, 0.1),
                        ("swaps:multi-round", ns, 0.2), ("swaps:latency-N", ns, 0.2), ("swaps:ties", ns, 0.3)):
        if rec.classes.get(k, 0) / n < floor:
            out.append(f"{k} only {rec.classes.get(k, 0)}/{n}")
    return out
