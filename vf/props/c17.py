"""C17 -- buffer traffic models charge exactly what their policy implies.

Everything the oracle needs is computed here from the *generated case* (rows of
the synthetic traces, bindings, line size, capacity); nothing is read back from
the library's intermediate files and no library routine is used as its own
oracle.
"""

import itertools
import math
import os
import shutil
import tempfile
import traceback

from hypothesis import strategies as st

from fibertree import Tensor
from fibertree.model import Format, Traffic

from .. import findings
from ..core import Part, Violation

ID = "C17"
P12 = "P12-traffic-stale-loop-vars"
P19 = "P19-cache-resident-lookup"

RULE = ("Part traffic: synthetic CSV traces written directly (1-3 loop ranks; per binding a read and/or a write "
        "file with strictly increasing stamps, write rows mostly at stamp+1 of a read row as populate produces "
        "them, coordinates of outer ranks a function of the stamp prefix, positions 0..shape+2 so that the "
        "insertion staging area is reached), 1-3 bindings over 1-2 tensors of different rank shapes / element "
        "sizes / layouts (optionally renamed ranks passed through loop_ranks, optionally two bindings sharing one "
        "trace file), evict-on = root or any outer loop rank, capacity 0..5 lines (+ partial line) or unbounded, "
        "line = 1-4 elements (+ padding bits). Oracle buffet: group the stably merged read/write rows of a "
        "binding by (line, stamp prefix up to the evict-on rank); one fill per group starting with a read, one "
        "write-back per group containing a write below the rank's shape. Oracle cache (fills only): reference "
        "furthest-next-use simulation with bypass, staging lines pinned; for read-only cases additionally an exhaustive search "
        "over all replacement decisions (resident sets, bypass allowed) for the minimum number of fills. Derived "
        "on every case: distinct lines first touched by a read <= fills <= reads; cache fills non-increasing in "
        "capacity, buffet traffic independent of capacity; same result after permuting positions inside a line; "
        "directory listing before == after. Part filter: filterTrace output == input rows whose point occurs in "
        "the filter. Part combine: _combineTraces == stable merge by stamp, reads first on ties. Part enum: every "
        "read-only single-binding access pattern up to 6 accesses over <= 3 lines x capacity 0..3 lines, both "
        "models. Part kernel: traces produced by the library's own tracing of a small Gustavson-style kernel "
        "(populate read/write traces with real staging-area positions). Non-trivial: >= 1 write, a line that is "
        "re-used (buffet: in >= 2 eviction windows; cache: capacity below the number of distinct lines so that "
        "the policy has to evict or bypass). Distinct = SHA-1 of the generated case.")

ASSUMPTIONS = [
    "stamps are strictly increasing inside one trace file (one row per loop iteration, as Metrics emits them); "
    "a read and a write row of one binding may carry the same stamp (populate writes carry stamp+1) but then "
    "address different lines",
    "evict-on is 'root' or a loop rank strictly outside the bound rank (DESIGN section 5)",
    "every binding has its own (tensor, rank, type) key and at least one trace; the bound rank is the last rank "
    "of its trace; tensor ranks are a subsequence of the loop order; tensor shapes are authoritative",
    "element footprints are 1..line_sz bits (the code asserts elems_per_line > 0)",
    "accesses of different bindings with equal stamps are served in binding order (outer rank first, then "
    "listing order), which is the order the model documents by padding shorter stamps",
    "exact cache comparison with the furthest-next-use reference is skipped (bounds only) when pinned staging "
    "lines alone exceed the capacity -- the statement does not define optimality for an over-committed cache",
    "a replacement decision between two lines of ONE binding whose next uses carry the same stamp (read/write "
    "tie) is not determined by the statement -- either choice is furthest-next-use; such cases get bounds only",
    "the overflow counters and the cache model's write-back bits are not part of the statement: they are "
    "recorded as classes, not compared",
    "kernel part: trace files without a header (a loop that never ran) are not bound; the traces Metrics writes "
    "are taken as input data (their correctness is C16's subject)",
]

BIG = 10 ** 6
LOOP = ["M", "K", "N"]


# --------------------------------------------------------------------------
# case helpers (pure)
# --------------------------------------------------------------------------

def _tensors(case):
    return {t["name"]: t for t in case["tensors"]}


def _footprint(fmt, type_):
    if type_ == "coord":
        return fmt["cbits"]
    if type_ == "payload":
        return fmt["pbits"]
    return fmt["cbits"] + fmt["pbits"]


def resolve(case):
    """Per binding, in the order the model serves them (stable by loop depth):
    dict(tensor, depth n, mask over order[:n], elems per line, own rank shape,
    trace index, evict prefix length, has_write)."""
    tens = _tensors(case)
    order = case["order"]
    out = []
    for li, b in enumerate(case["bindings"]):
        t = tens[b["tensor"]]
        ids = [r[1] for r in t["ranks"]]
        loops = [r[0] for r in t["ranks"]]
        j = ids.index(b["rank"])
        n = order.index(loops[j]) + 1
        tr = case["traces"][b["trace"]]
        ev = b.get("evict", "root")
        out.append({
            "listing": li, "tensor": b["tensor"], "rank": b["rank"], "type": b["type"], "n": n,
            "mask": [r in loops for r in order[:n]],
            "epl": case["line_sz"] // _footprint(t["fmt"][j], b["type"]),
            "shape": t["shape"][j], "trace": b["trace"],
            "evict_len": 0 if ev == "root" else order.index(ev) + 1,
            "has_write": tr["write"] is not None, "has_read": tr["read"] is not None,
        })
    out.sort(key=lambda x: x["n"])     # stable: listing order inside one rank
    return out


def merged_rows(tr, n):
    """Stable merge of the read and write rows by stamp, reads first on ties.
    -> list of (stamp, coords, pos, is_write)"""
    rows = []
    for acc in ("read", "write"):
        for r in tr[acc] or []:
            rows.append((tuple(r[:n]), tuple(r[n:2 * n]), r[2 * n], acc == "write"))
    rows.sort(key=lambda x: (x[0], x[3]))      # sorted() is stable
    return rows


def accesses(case, binds, staging_shapes):
    """Global access sequence.  Each access: dict(b, obj, write, staging, stamp, pos)."""
    L = len(case["order"])
    seq = []
    for bi, b in enumerate(binds):
        n = b["n"]
        for k, (stamp, coords, pos, w) in enumerate(merged_rows(case["traces"][b["trace"]], n)):
            upper = tuple(c for c, m in zip(coords[:-1], b["mask"][:-1]) if m)
            sh = staging_shapes[bi]
            seq.append({"b": bi, "obj": (bi, upper, pos // b["epl"]), "write": w,
                        "staging": sh is not None and pos >= sh,
                        "stamp": stamp, "key": (stamp + (-1,) * (L - n), bi, k), "pos": pos})
    seq.sort(key=lambda a: a["key"])
    last = {}
    for i in range(len(seq) - 1, -1, -1):
        seq[i]["next"] = last.get(seq[i]["obj"])
        last[seq[i]["obj"]] = i
    return seq


def own_shapes(case, binds):
    """Staging rule: a binding with a write trace (and, for the buffet, bound
    below its evict-on rank -- always the case in this domain) never writes
    back positions at or beyond its own rank's shape."""
    return [b["shape"] if b["has_write"] else None for b in binds]


def stale_shapes(case, binds):
    """What P12 makes the code use: the shape of the last served binding's rank."""
    return [binds[-1]["shape"] if b["has_write"] else None for b in binds]


def zero_traffic(case, binds):
    t = {}
    for b in binds:
        d = t.setdefault(b["tensor"], {})
        if b["has_read"]:
            d["read"] = 0
        if b["has_write"]:
            d["write"] = 0
    return t


# --------------------------------------------------------------------------
# reference models
# --------------------------------------------------------------------------

def ref_buffet(case, binds, shapes, capacity):
    seq = accesses(case, binds, shapes)
    line = case["line_sz"]
    traffic = zero_traffic(case, binds)
    groups = {}
    for i, a in enumerate(seq):
        g = (a["obj"], a["stamp"][:binds[a["b"]]["evict_len"]])
        a["group"] = g
        groups.setdefault(g, []).append(i)
    for g, idx in groups.items():
        tensor = binds[seq[idx[0]]["b"]]["tensor"]
        if not seq[idx[0]]["write"]:
            traffic[tensor]["read"] += line
        if any(seq[i]["write"] and not seq[i]["staging"] for i in idx):
            traffic[tensor]["write"] += line
    # occupancy: a line is held from the first to the last access of its group
    # (single-access groups stream through) and space is released in fill order
    occ = 0
    overflows = 0
    queues = [[] for _ in binds]         # per binding: [group, released?]
    for i, a in enumerate(seq):
        idx = groups[a["group"]]
        if len(idx) < 2:
            continue
        q = queues[a["b"]]
        if i == idx[0]:
            q.append([a["group"], False])
            occ += line
            if occ > capacity:
                overflows += 1
        if i == idx[-1]:
            for e in q:
                if e[0] == a["group"]:
                    e[1] = True
            while q and q[0][1]:
                q.pop(0)
                occ -= line
    windows = {}
    for g in groups:
        windows.setdefault(g[0], set()).add(g[1])
    info = {"reuse_windows": any(len(w) >= 2 for w in windows.values()), "seq": seq,
            "pinned_over": False, "ambiguous": False, "hazard": None}
    return traffic, overflows, info


def ref_cache(case, binds, shapes, capacity):
    """Furthest-next-use with bypass; staging lines pinned until their last use.

    Besides the totals the simulation reports three situations in which the
    statement does not determine the outcome or a recorded finding applies:
      pinned_over : pinned staging lines alone exceed the capacity
      ambiguous   : a replacement decision compares two lines of one binding
                    whose next uses carry the same stamp (read/write tie)
      hazard      : P19 -- the resident line of the access is not the unpinned
                    line with the nearest next use (so it cannot be found at
                    the head of a next-use queue): either another binding's
                    line with equal coordinates is there at a last use
                    ("wrong-binding"), or a same-stamp line of the same binding
                    ("tie")
    """
    seq = accesses(case, binds, shapes)
    line = case["line_sz"]
    traffic = zero_traffic(case, binds)
    res = {}                 # obj -> dict(dirty, pinned, next, nkey, touch)
    overflows = 0
    pressure = False
    pinned_over = False
    ambiguous = False
    hazard = None

    def nkey(i):
        return seq[i]["key"][:2]            # (padded stamp, binding)

    def coords_of(o):
        return o[1] + (o[2] * binds[o[0]]["epl"],)

    for t, a in enumerate(seq):
        tensor = binds[a["b"]]["tensor"]
        wb = a["write"] and not a["staging"]
        obj, nxt = a["obj"], a["next"]
        if obj in res:
            e = res[obj]
            unp = [(x["nkey"], x["touch"], o) for o, x in res.items() if not x["pinned"]]
            front = min(unp)[2] if unp else None
            if front != obj and hazard is None:
                if nxt is None and front is not None and coords_of(front) == coords_of(obj):
                    hazard = "wrong-binding"
                elif not e["pinned"]:
                    hazard = "tie"
            e["dirty"] = e["dirty"] or wb
            if nxt is None:
                if e["dirty"]:
                    traffic[tensor]["write"] += line
                del res[obj]
            else:
                e["next"], e["nkey"], e["touch"] = nxt, nkey(nxt), t
            continue
        if not a["write"]:
            traffic[tensor]["read"] += line
        if nxt is None:
            if wb:
                traffic[tensor]["write"] += line
            continue
        unpinned = sorted((x["next"], o) for o, x in res.items() if not x["pinned"])
        if (len(res) + 1) * line <= capacity:
            insert = True
        elif a["staging"]:
            insert = True
        elif not unpinned:
            insert = False
            pressure = True
        else:
            insert = nxt < unpinned[-1][0]
            pressure = True
            if nkey(nxt) == nkey(unpinned[-1][0]):
                ambiguous = True
        if not insert:
            if wb:
                traffic[tensor]["write"] += line
            continue
        while (len(res) + 1) * line > capacity:
            pressure = True
            if unpinned:
                _, victim = unpinned.pop()
                if unpinned and nkey(unpinned[-1][0]) == nkey(res[victim]["next"]):
                    ambiguous = True
                if res[victim]["dirty"]:
                    traffic[binds[victim[0]]["tensor"]]["write"] += line
                del res[victim]
            else:
                overflows += 1
                pinned_over = True
                break
        res[obj] = {"dirty": wb, "pinned": a["staging"], "next": nxt, "nkey": nkey(nxt), "touch": t}
    return traffic, overflows, {"pressure": pressure, "pinned_over": pinned_over, "ambiguous": ambiguous,
                                "hazard": hazard, "seq": seq}


def optimal_fills(objs, nlines):
    """Minimum number of fills over *all* replacement decisions for the
    read-only access sequence `objs` in a cache of `nlines` lines, bypass
    allowed.  Exhaustive search over resident sets."""
    ids = {}
    seq = [ids.setdefault(o, len(ids)) for o in objs]
    cur = {frozenset(): 0}
    for x in seq:
        nxt = {}

        def put(s, c):
            if c < nxt.get(s, BIG):
                nxt[s] = c

        for s, c in cur.items():
            if x in s:
                put(s, c)
                continue
            put(s, c + 1)                                   # bypass
            if nlines > 0:
                if len(s) < nlines:
                    put(s | {x}, c + 1)
                for y in s:                                     # replace any resident line
                    put((s - {y}) | {x}, c + 1)
        cur = nxt
    return min(cur.values()) if cur else 0


# --------------------------------------------------------------------------
# driving the library
# --------------------------------------------------------------------------

def header(order, n):
    return ",".join([r + "_pos" for r in order[:n]] + list(order[:n]) + ["fiber_pos"])


def write_rows(path, order, n, rows):
    with open(path, "w") as f:
        f.write(header(order, n) + "\n")
        for r in rows:
            f.write(",".join(str(v) for v in r) + "\n")


def listing(root):
    """every file and directory below root"""
    out = []
    for dp, dn, fn in os.walk(root):
        for x in fn + dn:
            out.append(os.path.relpath(os.path.join(dp, x), root))
    return sorted(out)


class scratch_env:
    """For the duration of a library call the system temporary directory and the working directory are
    fresh directories below `root`, so that whatever the call leaves behind anywhere shows in listing(root)."""

    def __init__(self, root):
        self.root = root

    def __enter__(self):
        import tempfile
        self.saved = (tempfile.tempdir, os.environ.get("TMPDIR"), os.getcwd())
        self.tmp = tempfile.mkdtemp(prefix="systmp-", dir=self.root)
        self.cwd = tempfile.mkdtemp(prefix="cwd-", dir=self.root)
        tempfile.tempdir = self.tmp
        os.environ["TMPDIR"] = self.tmp
        os.chdir(self.cwd)
        return self

    def __exit__(self, *exc):
        import tempfile
        tempfile.tempdir = self.saved[0]
        if self.saved[1] is None:
            os.environ.pop("TMPDIR", None)
        else:
            os.environ["TMPDIR"] = self.saved[1]
        os.chdir(self.saved[2])
        return False


def all_shapes(case):
    return sorted({s for t in case["tensors"] for s in t["shape"]})


def pos_permuter(case, g, rot):
    """Permutation of positions that stays inside blocks of g elements (g
    divides every elems-per-line using the trace) and never moves a position
    across any rank shape (the staging rule is element-granular)."""
    shapes = all_shapes(case)

    def cls(p):
        return tuple(p < s for s in shapes)

    def f(p):
        base = p // g * g
        grp = [q for q in range(base, base + g) if cls(q) == cls(p)]
        return grp[(grp.index(p) + rot) % len(grp)]
    return f


def materialise(case, d, permute=False):
    """Write the trace files of the case under d; build formats, bindings,
    trace_fns, loop_ranks for the library call."""
    order = case["order"]
    binds = resolve(case)
    paths = {}
    for ti, tr in enumerate(case["traces"]):
        n = tr["depth"]
        f = None
        if permute:
            g = 0
            for b in binds:
                if b["trace"] == ti:
                    g = math.gcd(g, b["epl"])
            if g > 1:
                f = pos_permuter(case, g, case.get("rot", 1))
        for acc in ("read", "write"):
            if tr[acc] is None:
                continue
            rows = tr[acc]
            if f is not None:
                rows = [list(r[:2 * n]) + [f(r[2 * n])] for r in rows]
            p = os.path.join(d, f"c17_{ti}-{order[n - 1]}-{'populate_read_0' if acc == 'read' else 'populate_write_0'}.csv")
            write_rows(p, order, n, rows)
            paths[ti, acc] = p
    formats = {}
    loop_ranks = {}
    for t in case["tensors"]:
        ids = [r[1] for r in t["ranks"]]
        for lr, i in t["ranks"]:
            if lr != i:
                loop_ranks[i] = lr
        spec = {}
        for i, fm in zip(ids, t["fmt"]):
            spec[i] = {"format": "C", "cbits": fm["cbits"], "pbits": fm["pbits"], "layout": fm["layout"]}
        formats[t["name"]] = Format(Tensor(rank_ids=ids, shape=list(t["shape"])), spec)
    bindings = []
    trace_fns = {}
    for b in case["bindings"]:
        e = {"tensor": b["tensor"], "rank": b["rank"], "type": b["type"]}
        if case["model"] == "buffet":
            e["evict-on"] = b["evict"]
            if b.get("evict_alias"):
                al = sorted(i for t in case["tensors"] for lr, i in t["ranks"] if lr == b["evict"] and i != lr)
                if al:
                    e["evict-on"] = al[0]
        bindings.append(e)
        for acc in ("read", "write"):
            if (b["trace"], acc) in paths:
                trace_fns[b["tensor"], b["rank"], b["type"], acc] = paths[b["trace"], acc]
    return bindings, formats, trace_fns, (loop_ranks or None)


def run_lib(case, root, sub, capacity, permute=False):
    d = os.path.join(root, sub)
    os.makedirs(d)
    bindings, formats, trace_fns, loop_ranks = materialise(case, d, permute)
    fn = Traffic.buffetTraffic if case["model"] == "buffet" else Traffic.cacheTraffic
    with scratch_env(root):
        before = listing(root)
        if loop_ranks is None:
            traffic, overflows = fn(bindings, formats, trace_fns, capacity, case["line_sz"])
        else:
            traffic, overflows = fn(bindings, formats, trace_fns, capacity, case["line_sz"], loop_ranks=loop_ranks)
        after = listing(root)
    if before != after:
        raise Violation("temp-files", f"directory listing changed by the call: before={before} after={after}")
    return traffic, overflows


def total(traffic, acc):
    return sum(v.get(acc, 0) for v in traffic.values())


# --------------------------------------------------------------------------
# the traffic check
# --------------------------------------------------------------------------

# One directory per process, cleaned between cases: consecutive cases write their traces under the SAME
# paths (a kernel re-run with another loop order under one Metrics prefix does that), so a result must be a
# function of the traces given to this call, not of what an earlier call read from a file of that name
_ROOTS = {}


def _clean(root):
    for x in os.listdir(root):
        q = os.path.join(root, x)
        shutil.rmtree(q, ignore_errors=True) if os.path.isdir(q) else os.remove(q)


def _case_root():
    pid = os.getpid()
    if pid not in _ROOTS or not os.path.isdir(_ROOTS[pid]):
        _ROOTS[pid] = tempfile.mkdtemp(prefix="c17-")
    _clean(_ROOTS[pid])
    return _ROOTS[pid]


class _Excluded(Exception):
    """The case fell into the sub-class of an open finding; it was counted."""


def _lib_assert_site(e):
    """innermost frame of an AssertionError, if it is one of the cache policy
    callbacks of traffic.py"""
    fr = traceback.extract_tb(e.__traceback__)
    if fr and fr[-1].filename.endswith(os.path.join("model", "traffic.py")) \
            and fr[-1].name in ("to_be_buffered", "evict_elem"):
        return fr[-1].name
    return None


def check_traffic(case, rec):
    try:
        _check_traffic(case, rec)
    except _Excluded:
        rec.exclude()
        rec.cls("excluded-by-open-finding")


def _check_traffic(case, rec):
    binds = resolve(case)
    model = case["model"]
    ref = ref_buffet if model == "buffet" else ref_cache
    line = case["line_sz"]
    cap = case["capacity"]
    root = _case_root()
    try:
        def candidates(capacity):
            """reference results: the stated accounting, and -- only to recognise
            P12 -- the accounting with the last binding's staging shape"""
            own = own_shapes(case, binds)
            out = [ref(case, binds, own, capacity)]
            stale = stale_shapes(case, binds)
            if len(binds) >= 2 and stale != own:
                out.append(ref(case, binds, stale, capacity))
            return out

        def undecided(info):
            return info["pinned_over"] or info["ambiguous"]

        def run(sub, capacity, permute=False):
            """library call; an AssertionError out of the cache callbacks on a
            case the reference flags as P19 is that finding"""
            cands = candidates(capacity)
            hazards = [c[2]["hazard"] for c in cands[:1 + findings.is_open(ID, P12)] if c[2]["hazard"]]
            try:
                return run_lib(case, root, sub, capacity, permute)
            except AssertionError as e:
                site = _lib_assert_site(e)
                if site and hazards:
                    if findings.is_open(ID, P19):
                        rec.known(P19)
                        raise _Excluded()
                    raise Violation("P19-cache-resident-lookup",
                                    f"cacheTraffic raised AssertionError in {site}; reference flags '{hazards[0]}': "
                                    f"the accessed resident line is not at the head of the next-use queue") from e
                raise

        def stated(traffic):
            """the part of a result the statement determines: fills of both models and the buffet's write-backs
            (neither the cache's write-back accounting nor the overflow counters are part of it)"""
            if model == "buffet":
                return traffic
            # the cache clause fixes the NUMBER of fills; which of two equally late lines of different bindings
            # goes first (and so which tensor is charged) is a tie the statement leaves open
            return {"<all tensors>": {"read": sum(d.get("read", 0) for d in traffic.values())}}

        def compare(got, capacity):
            """Exact comparison with the reference at one capacity.  Returns the
            reference info of the accounting that matched."""
            cands = [(stated(t), None, i) for t, o, i in candidates(capacity)]
            got = (stated(got[0]), None)
            want_t, want_o, info = cands[0]
            if got == (want_t, want_o) and not undecided(info):
                return info
            if undecided(info):
                # bounds only; while P12 is open the bounds must use the staging
                # classification the code really applies
                if len(cands) > 1 and findings.is_open(ID, P12):
                    return cands[1][2]
                return info
            if len(cands) > 1:
                alt_t, alt_o, alt_info = cands[1]
                if undecided(alt_info) and findings.is_open(ID, P12):
                    rec.known(P12)
                    rec.cls("P12-normalised")
                    return alt_info
                if got == (alt_t, alt_o):
                    if findings.is_open(ID, P12):
                        rec.known(P12)
                        rec.cls("P12-normalised")
                        return alt_info
                    raise Violation(
                        "P12-stale-staging-shape",
                        f"{model}: library {got} != reference {(want_t, want_o)} at capacity {capacity}; it equals "
                        f"the accounting that uses the staging shape of the LAST binding ({binds[-1]['tensor']},"
                        f"{binds[-1]['rank']} shape {binds[-1]['shape']}) for every binding")
            hazards = [c[2]["hazard"] for c in cands[:1 + findings.is_open(ID, P12)] if c[2]["hazard"]]
            if hazards:
                if findings.is_open(ID, P19):
                    rec.known(P19)
                    raise _Excluded()
                raise Violation("P19-cache-resident-lookup",
                                f"cache: library {got} != reference {(want_t, want_o)} at capacity {capacity}; the "
                                f"reference flags '{hazards[0]}': the accessed resident line is not at the head of "
                                f"the next-use queue")
            raise Violation(f"{model}-traffic", f"library traffic {got[0]} != reference {want_t} "
                            f"(capacity {capacity}, line {line})")

        got = run("main", cap)
        info = compare(got, cap)
        want_t = zero_traffic(case, binds)
        seq = info["seq"]
        # ---- bounds that hold whatever the policy
        nreads = {}
        first_read = {}
        nwrites_wb = {}
        seen = set()
        for a in seq:
            t = binds[a["b"]]["tensor"]
            if not a["write"]:
                nreads[t] = nreads.get(t, 0) + 1
            elif not a["staging"]:
                nwrites_wb[t] = nwrites_wb.get(t, 0) + 1
            if a["obj"] not in seen:
                seen.add(a["obj"])
                if not a["write"]:
                    first_read[t] = first_read.get(t, 0) + 1
        for t, d in got[0].items():
            if "read" in d and not (first_read.get(t, 0) * line <= d["read"] <= nreads.get(t, 0) * line):
                raise Violation("fill-bounds", f"tensor {t}: fills {d['read']} bits not within "
                                f"[{first_read.get(t, 0)}, {nreads.get(t, 0)}] lines of {line} bits")
            if model == "buffet" and "write" in d and d["write"] > nwrites_wb.get(t, 0) * line:
                raise Violation("write-bounds", f"tensor {t}: {d['write']} bits written back, only "
                                f"{nwrites_wb.get(t, 0)} non-staging writes")
        gk, wk = stated(got[0]), stated(want_t)
        if set(gk) != set(wk) or any(set(gk[t]) != set(wk[t]) for t in wk):
            raise Violation("traffic-keys", f"result keys {got[0]} differ from the traced accesses {want_t}")
        # ---- exhaustive optimum for read-only cache cases
        readonly = not any(b["has_write"] for b in binds)
        if model == "cache" and readonly and len(seen) <= 7 and len(seq) <= 16:
            opt = optimal_fills([a["obj"] for a in seq], cap // line)
            if total(got[0], "read") != opt * line:
                raise Violation("cache-not-optimal", f"library charges {total(got[0], 'read') // line} fills, exhaustive "
                                f"optimum over all replacement decisions is {opt} (capacity {cap // line} lines, "
                                f"sequence {[a['obj'] for a in seq]})")
            rec.cls("exhaustive-optimum")
        # ---- capacity
        cap2 = case["capacity2"]
        got2 = run("cap2", cap2)
        lo, hi = (got, got2) if cap <= cap2 else (got2, got)
        if model == "buffet":
            if got2[0] != got[0]:
                raise Violation("buffet-capacity-dependence", f"buffet traffic {got[0]} at capacity {cap} but "
                                f"{got2[0]} at capacity {cap2}")
        else:
            info2 = compare(got2, cap2)
            if not undecided(info) and not undecided(info2):
                if total(hi[0], "read") > total(lo[0], "read"):
                    raise Violation("cache-capacity-monotone", f"fills increase with capacity: {lo[0]} at "
                                    f"{min(cap, cap2)} bits, {hi[0]} at {max(cap, cap2)} bits")
        # ---- positions matter only at line granularity
        if any(b["epl"] > 1 for b in binds):
            got3 = run("perm", cap, permute=True)
            if got3 != got:
                raise Violation("line-granularity", f"result {got} changes to {got3} after permuting positions "
                                f"inside lines (rotation {case.get('rot', 1)})")
            rec.cls("multi-elem-line")
        # ---- classification
        nobj = len(seen)
        reused = len(seq) > nobj
        has_write = any(a["write"] for a in seq)
        rec.cls(model)
        rec.cls(f"{len(binds)}-bindings")
        rec.cls("has-write", has_write)
        rec.cls("staging-access", any(a["staging"] for a in seq))
        rec.cls("line-reused", reused)
        rec.cls("loop-ranks-renamed", any(r[0] != r[1] for t in case["tensors"] for r in t["ranks"]))
        rec.cls("evict-on-spelled-with-alias", any(
            b.get("evict_alias") and any(lr == b.get("evict") and i != lr for t in case["tensors"] for lr, i in t["ranks"])
            for b in case["bindings"]))
        rec.cls("multi-digit-stamp-or-position", any(
            any(x >= 10 for r in (tr[acc] or []) for x in r) for tr in case["traces"] for acc in ("read", "write")))
        rec.cls("shared-trace-file", len({b["trace"] for b in binds}) < len(binds))
        rec.cls("pinned-overcommit", info["pinned_over"])
        rec.cls("tie-ambiguous-decision", info["ambiguous"])
        rec.cls("P19-hazard-but-agrees", bool(info["hazard"]))
        rec.cls("overflows", got[1] > 0)
        rec.cls("stamp-tie-read-write", any(x["key"][:-1] == y["key"][:-1] for x, y in zip(seq, seq[1:])))
        if model == "buffet":
            nt = rec.cls("reuse-in-2-windows", info["reuse_windows"]) and has_write
        else:
            nt = rec.cls("capacity-pressure", info["pressure"] and nobj * line > cap) and has_write and reused
        rec.nontrivial(bool(nt))
    finally:
        _clean(root)


# --------------------------------------------------------------------------
# generator for the traffic part
# --------------------------------------------------------------------------

@st.composite
def traffic_cases(draw, model=None):
    model = model or draw(st.sampled_from(["buffet", "cache", "cache"]))
    nl = draw(st.sampled_from([1, 2, 2, 2, 3, 3]))
    # (the loop ranks in a drawn order: the same file name may carry another header in the next case)
    order = draw(st.sampled_from([["M", "K", "N"], ["M", "K", "N"], ["K", "N", "M"], ["N", "M", "K"], ["K", "M", "N"]]))[:nl]
    nt = draw(st.sampled_from([1, 1, 2]))
    # (multi-digit stamps and positions: rows are compared as numbers, not as text)
    wide = draw(st.integers(0, 5)) == 0
    tensors = []
    cands = []
    for ti in range(nt):
        name = "AB"[ti]
        bits = draw(st.integers(1, 2 ** nl - 1))
        lr = [r for j, r in enumerate(order) if (bits >> j) & 1]
        alias = draw(st.integers(0, 4)) == 0
        ranks = [[r, r + name.lower() if alias else r] for r in lr]
        shape = [draw(st.sampled_from([12, 12, 11, 3, 5])) if wide else draw(st.integers(1, 5)) for _ in lr]
        fmt = []
        for r in ranks:
            layout = draw(st.sampled_from(["contiguous", "contiguous", "contiguous", "interleaved"]))
            fmt.append({"layout": layout, "cbits": draw(st.sampled_from([1, 2, 3, 4])),
                        "pbits": draw(st.sampled_from([1, 2, 4, 6]))})
            for ty in (["elem"] if layout == "interleaved" else ["coord", "payload"]):
                cands.append([name, r[1], ty])
        tensors.append({"name": name, "ranks": ranks, "shape": shape, "fmt": fmt})
    nb = draw(st.integers(1, min(3, len(cands))))
    chosen = list(draw(st.permutations(cands)))[:nb]
    tens = {t["name"]: t for t in tensors}
    foot = []
    depth = []
    shp = []
    for name, rid, ty in chosen:
        t = tens[name]
        j = [r[1] for r in t["ranks"]].index(rid)
        foot.append(_footprint(t["fmt"][j], ty))
        depth.append(order.index(t["ranks"][j][0]) + 1)
        shp.append(t["shape"][j])
    mf = max(foot)
    line_sz = mf * draw(st.sampled_from([1, 1, 2, 2, 3, 4])) + draw(st.sampled_from([0, 0, 0] + list(range(mf))))
    upper = {}

    def coords_for(stamp):
        out = []
        for j in range(len(stamp) - 1):
            k = (j, stamp[:j + 1])
            if k not in upper:
                # (wide: coordinates whose digits run together with those of the next component: 1|12 and 11|2)
                upper[k] = draw(st.sampled_from([1, 11, 1, 11, 2, 12] if wide else [0, 0, 1, 1, 2]))
            out.append(upper[k])
        out.append(draw(st.integers(0, 4)))
        return out

    traces = []
    bindings = []
    for bi, (name, rid, ty) in enumerate(chosen):
        n = depth[bi]
        same = [b["trace"] for b in bindings if traces[b["trace"]]["depth"] == n]
        if same and draw(st.integers(0, 3)) == 0:
            tix = same[0]
        else:
            radix = ({1: [13], 2: [3, 12], 3: [2, 3, 11]} if wide else {1: [9], 2: [3, 4], 3: [2, 3, 3]})[n]
            lo = draw(st.sampled_from([0, 2, 4, 4, 6]))
            comp = st.tuples(*[st.integers(0, r - 1) for r in radix])
            stamps = sorted(draw(st.sets(comp, min_size=min(lo, 8), max_size=lo + 6)))
            npos = draw(st.sampled_from([1, 2, 2, 3, shp[bi] + 2]))
            pos0 = draw(st.integers(0, shp[bi] + 2 - min(npos, shp[bi] + 2)))
            read = []
            wpos = [q for q in (1, 2, 11, 12, 21) if q <= shp[bi] + 1]
            for s in stamps:
                if wide and wpos and draw(st.booleans()):
                    read.append(list(s) + coords_for(s) + [draw(st.sampled_from(wpos))])
                else:
                    read.append(list(s) + coords_for(s) + [draw(st.integers(pos0, min(pos0 + npos, shp[bi] + 2)))])
            kind = draw(st.sampled_from(["r", "r", "rw", "rw", "rw", "w"]))
            write = None
            if kind != "r":
                w = {}
                for r in read:
                    if draw(st.booleans()):
                        s = tuple(r[:n - 1]) + (r[n - 1] + 1,)
                        w[s] = list(s) + r[n:]
                for _ in range(draw(st.integers(0, 3))):
                    s = draw(comp)
                    if s not in w:
                        w[s] = list(s) + coords_for(s) + [draw(st.integers(pos0, min(pos0 + npos, shp[bi] + 2)))]
                write = [w[s] for s in sorted(w)]
            if kind == "w":
                read = None
            tix = len(traces)
            traces.append({"depth": n, "read": read, "write": write})
        b = {"tensor": name, "rank": rid, "type": ty, "trace": tix}
        if model == "buffet":
            b["evict"] = draw(st.sampled_from(["root"] + order[:n - 1] * 2))
            # evict-on may be spelled with a tensor-side rank id that loop_ranks maps to that loop rank
            b["evict_alias"] = draw(st.integers(0, 1))
        bindings.append(b)
    lines = draw(st.sampled_from([0, 1, 1, 2, 2, 3, 4, 5, None]))
    rem = draw(st.integers(0, line_sz - 1))
    capacity = BIG if lines is None else lines * line_sz + rem
    l2 = draw(st.sampled_from([0, 1, 2, 3, 4, 6, None]))
    capacity2 = BIG if l2 is None else l2 * line_sz + draw(st.integers(0, line_sz - 1))
    return {"model": model, "order": order, "tensors": tensors, "bindings": bindings, "traces": traces,
            "line_sz": line_sz, "capacity": capacity, "capacity2": capacity2, "rot": draw(st.integers(1, 3))}


def digit_cases(tier):
    """hand-made traces in which two DIFFERENT lines have coordinates whose digits run together to the same
    text: (K=1, position 12) and (K=11, position 2), (K=1, position 11) and (K=11, position 1), ... -- lines
    are identified by their coordinates as numbers, component by component"""
    fmt = {"layout": "contiguous", "cbits": 8, "pbits": 8}
    tens = [{"name": "A", "ranks": [["K", "K"], ["N", "N"]], "shape": [12, 22], "fmt": [dict(fmt), dict(fmt)]}]
    for x, y in (((1, 12), (11, 2)), ((1, 11), (11, 1)), ((2, 12), (21, 2)), ((11, 2), (1, 12))):
        for model_, rows in (
                ("buffet", [[0, 0, 0, 0, x[0], 7, x[1]], [0, 1, 0, 0, y[0], 7, y[1]], [1, 0, 0, 1, x[0], 7, x[1]]]),
                ("cache", [[0, 0, 0, 0, x[0], 7, x[1]], [0, 1, 0, 0, 5, 7, 5], [0, 2, 0, 0, y[0], 7, y[1]],
                           [0, 3, 0, 0, 5, 7, 5]])):
            for cap in ((10 ** 6,) if model_ == "buffet" else (8, 16)):
                b = {"tensor": "A", "rank": "N", "type": "payload", "trace": 0}
                if model_ == "buffet":
                    b["evict"] = "M"
                yield {"model": model_, "order": ["M", "K", "N"], "tensors": tens, "bindings": [b],
                       "traces": [{"depth": 3, "read": rows, "write": None}], "line_sz": 8, "capacity": cap,
                       "capacity2": 10 ** 6, "rot": 1}


PARTS = [Part("traffic", traffic_cases(), check_traffic, n_quick=1200, n_thorough=4000),
         Part("digits", None, check_traffic, n_quick=0, n_thorough=0, enumerate=digit_cases,
              exhaustive_note="12 hand-made traces whose distinct lines have coordinates that read the same when their "
                              "digits are run together (1|12 and 11|2 ...), buffet and cache")]


# --------------------------------------------------------------------------
# part "kernel": traces produced by the library's own tracing of a kernel
# --------------------------------------------------------------------------

# slot -> (tensor, rank, read trace, write trace)
SLOTS = {
    "ZN": ("Z", "N", "N-populate_read_0", "N-populate_write_0"),
    "BN": ("B", "N", "N-populate_1", None),
    "AK": ("A", "K", "K-intersect_0", None),
    "BK": ("B", "K", "K-intersect_1", None),
    "AM": ("A", "M", "M-populate_1", None),
}
TENSOR_RANKS = {"A": ["M", "K"], "B": ["K", "N"], "Z": ["M", "N"]}


def trace_kernel(case, d):
    """Z_mn = A_mk * B_kn (Gustavson, output populated in place) under
    Metrics tracing, exactly the idiom of test_traffic.py."""
    from fibertree import Metrics
    M, K, N = case["dims"]
    A_MK = Tensor.fromUncompressed(["M", "K"], case["A"], shape=[M, K])
    B_KN = Tensor.fromUncompressed(["K", "N"], case["B"], shape=[K, N])
    Z_MN = Tensor(rank_ids=["M", "N"], shape=[M, N])
    a_m, b_k, z_m = A_MK.getRoot(), B_KN.getRoot(), Z_MN.getRoot()
    if Metrics.isCollecting():
        Metrics.endCollect()
    Metrics.beginCollect(os.path.join(d, "k"))
    try:
        Metrics.trace("M", type_="populate_1")
        Metrics.trace("K", type_="intersect_0")
        Metrics.trace("K", type_="intersect_1")
        Metrics.trace("N", type_="populate_read_0")
        Metrics.trace("N", type_="populate_write_0")
        Metrics.trace("N", type_="populate_1")
        for m, (z_n, a_k) in z_m << a_m:
            for k, (a_val, b_n) in a_k & b_k:
                for n, (z_ref, b_val) in z_n << b_n:
                    z_ref += a_val * b_val
    finally:
        Metrics.endCollect()


def parse_trace(path, n):
    """rows of a trace file; None when the file is missing or has no header
    (the loop of that rank never ran)"""
    if not os.path.exists(path):
        return None
    with open(path) as f:
        lines = f.read().splitlines()
    if not lines or lines[0] != header(LOOP, n):
        return None
    return [[int(v) for v in ln.split(",")] for ln in lines[1:]]


def check_kernel(case, rec):
    d = tempfile.mkdtemp(prefix="c17k-")
    try:
        trace_kernel(case, d)
        files = {}
        for slot, (_, rank, rd, wr) in SLOTS.items():
            n = LOOP.index(rank) + 1
            files[slot] = (n, parse_trace(os.path.join(d, f"k-{rd}.csv"), n),
                           parse_trace(os.path.join(d, f"k-{wr}.csv"), n) if wr else None)
    finally:
        shutil.rmtree(d, ignore_errors=True)
    traces = []
    bindings = []
    layouts = {}
    for b in case["bind"]:
        n, rd, wr = files[b["slot"]]
        if rd is None:
            continue
        for rows in (rd, wr or []):
            st_ = [tuple(r[:n]) for r in rows]
            if any(x >= y for x, y in zip(st_, st_[1:])):
                rec.cls("kernel-trace-not-strictly-increasing")
                return
        tensor, rank = SLOTS[b["slot"]][:2]
        traces.append({"depth": n, "read": rd, "write": wr})
        types = ["coord", "payload"] if b["mode"] == "coord+payload" else [b["mode"]]
        layouts[tensor, rank] = "interleaved" if b["mode"] == "elem" else "contiguous"
        for ty in types:
            e = {"tensor": tensor, "rank": rank, "type": ty, "trace": len(traces) - 1}
            if case["model"] == "buffet":
                e["evict"] = b["evict"]
            bindings.append(e)
    if not bindings:
        rec.cls("no-trace-produced")
        return
    dims = dict(zip("MKN", case["dims"]))
    tensors = []
    for name, ranks in TENSOR_RANKS.items():
        tensors.append({"name": name, "ranks": [[r, r] for r in ranks], "shape": [dims[r] for r in ranks],
                        "fmt": [{"layout": layouts.get((name, r), "contiguous"),
                                 "cbits": case["bits"][name + r][0], "pbits": case["bits"][name + r][1]}
                                for r in ranks]})
    case2 = {"model": case["model"], "order": list(LOOP), "tensors": tensors, "bindings": bindings,
             "traces": traces, "line_sz": case["line_sz"], "capacity": case["capacity"],
             "capacity2": case["capacity2"], "rot": case["rot"]}
    check_traffic(case2, rec)
    rec.cls("Z-bound", any(b["tensor"] == "Z" for b in bindings))


@st.composite
def kernel_cases(draw):
    model = draw(st.sampled_from(["buffet", "cache", "cache"]))
    M, K, N = draw(st.integers(1, 3)), draw(st.integers(1, 3)), draw(st.integers(1, 4))
    A = [[draw(st.sampled_from([0, 1, 1, 2])) for _ in range(K)] for _ in range(M)]
    B = [[draw(st.sampled_from([0, 0, 1, 3])) for _ in range(N)] for _ in range(K)]
    nslots = draw(st.sampled_from([1, 2, 2, 3]))
    slots = list(draw(st.permutations(["ZN", "ZN", "BN", "AK", "BK", "AM"])))
    chosen = []
    for s in slots:
        if s not in chosen and len(chosen) < nslots:
            chosen.append(s)
    bits = {t + r: [draw(st.sampled_from([1, 2, 4])), draw(st.sampled_from([1, 2, 4]))]
            for t, rs in TENSOR_RANKS.items() for r in rs}
    bind = []
    mf = 1
    for s in chosen:
        tensor, rank = SLOTS[s][:2]
        mode = draw(st.sampled_from(["coord", "payload", "payload", "elem", "coord+payload"]))
        c, p = bits[tensor + rank]
        mf = max(mf, {"coord": c, "payload": p, "elem": c + p, "coord+payload": max(c, p)}[mode])
        n = LOOP.index(rank) + 1
        bind.append({"slot": s, "mode": mode, "evict": draw(st.sampled_from(["root"] + LOOP[:n - 1] * 2))})
    line_sz = mf * draw(st.sampled_from([1, 1, 2, 2, 3])) + draw(st.sampled_from([0, 0, 0] + list(range(mf))))
    lines = draw(st.sampled_from([0, 1, 1, 2, 2, 3, 4, 6, None]))
    capacity = BIG if lines is None else lines * line_sz + draw(st.integers(0, line_sz - 1))
    l2 = draw(st.sampled_from([0, 1, 2, 3, 5, 8, None]))
    capacity2 = BIG if l2 is None else l2 * line_sz + draw(st.integers(0, line_sz - 1))
    return {"model": model, "dims": [M, K, N], "A": A, "B": B, "bind": bind, "bits": bits,
            "line_sz": line_sz, "capacity": capacity, "capacity2": capacity2, "rot": draw(st.integers(1, 3))}


PARTS.append(Part("kernel", kernel_cases(), check_kernel, n_quick=300, n_thorough=1500))


# --------------------------------------------------------------------------
# part "enum": every small read-only access pattern, run completely
# --------------------------------------------------------------------------

def _rgs(n, kmax):
    """restricted growth strings of length n with at most kmax symbols
    (= access patterns up to renaming of the lines)"""
    def rec(prefix, used):
        if len(prefix) == n:
            yield list(prefix)
            return
        for x in range(min(used + 1, kmax)):
            yield from rec(prefix + [x], max(used, x + 1))
    yield from rec([], 0)


def _enum_case(model, pattern, newwin, lines, evict):
    """A[K] read through loop (M, K); access i touches line pattern[i];
    newwin[i] starts a new M iteration before access i."""
    rows = []
    m = k = 0
    for i, ln in enumerate(pattern):
        if i and newwin[i - 1]:
            m, k = m + 1, 0
        rows.append([m, k, m, ln, ln])
        k += 1
    b = {"tensor": "A", "rank": "K", "type": "payload", "trace": 0}
    if model == "buffet":
        b["evict"] = evict
    return {"model": model, "order": ["M", "K"],
            "tensors": [{"name": "A", "ranks": [["K", "K"]], "shape": [3],
                         "fmt": [{"layout": "contiguous", "cbits": 1, "pbits": 2}]}],
            "bindings": [b], "traces": [{"depth": 2, "read": rows, "write": None}],
            "line_sz": 2, "capacity": 2 * lines, "capacity2": 2 * lines + 2, "rot": 1}


def enum_cases(tier):
    cmax, bmax = (5, 4) if tier == "quick" else (7, 5)
    for n in range(1, cmax + 1):
        for pat in _rgs(n, 3):
            for lines in range(4):
                # the cache ignores the loop structure: one M iteration per access pattern
                yield _enum_case("cache", pat, [0] * (n - 1), lines, None)
    for n in range(1, bmax + 1):
        for pat in _rgs(n, 3):
            for mask in itertools.product([0, 1], repeat=n - 1):
                yield _enum_case("buffet", pat, list(mask), 1, "M")
                if not any(mask):
                    yield _enum_case("buffet", pat, list(mask), 0, "root")


def check_enum(case, rec):
    check_traffic(case, rec)
    rec.nontrivial(len(case["traces"][0]["read"]) >= 3)


# --------------------------------------------------------------------------
# part "filter": Traffic.filterTrace
# --------------------------------------------------------------------------

@st.composite
def filter_cases(draw):
    n = draw(st.integers(1, 3))
    m = draw(st.integers(n, 3))
    # coordinates with different numbers of digits (8, 9, 10, 11 ...) so that numeric and textual order differ
    coord = st.sampled_from([0, 1, 2, 3, 8, 9, 10, 11, 19, 20, 99, 100])
    pt = st.tuples(*[coord] * n)
    inp = sorted(draw(st.sets(pt, min_size=draw(st.sampled_from([0, 1, 3, 4])), max_size=9)))
    fil = []
    for _ in range(draw(st.integers(0, 10))):
        pre = draw(st.sampled_from(inp)) if inp and draw(st.integers(0, 3)) else draw(pt)
        fil.append(list(pre) + [draw(st.sampled_from([0, 1, 2, 9, 10])) for _ in range(m - n)])
    fil.sort()
    rows_in = [[i] * n + list(p) + [draw(st.integers(0, 9))] for i, p in enumerate(inp)]
    rows_fil = [[i] * m + list(p) + [draw(st.integers(0, 9))] for i, p in enumerate(fil)]
    return {"n": n, "m": m, "input": rows_in, "filter": rows_fil}


def check_filter(case, rec):
    n, m = case["n"], case["m"]
    d = tempfile.mkdtemp(prefix="c17f-")
    try:
        fi, ff, fo = (os.path.join(d, x) for x in ("in-K-intersect_0.csv", "fil-N-iter.csv", "out.csv"))
        write_rows(fi, LOOP, n, case["input"])
        write_rows(ff, LOOP, m, case["filter"])
        keep_in = open(fi).read()
        keep_fil = open(ff).read()
        with scratch_env(d) as env:
            Traffic.filterTrace(fi, ff, fo)
            left = [x for x in listing(d) if x not in (os.path.basename(env.tmp), os.path.basename(env.cwd))]
        if left != sorted(os.path.basename(x) for x in (fi, ff, fo)):
            raise Violation("temp-files", f"filterTrace left {left}")
        if open(fi).read() != keep_in or open(ff).read() != keep_fil:
            raise Violation("filter-modified-input", "filterTrace changed one of its input files")
        present = {tuple(r[m:m + n]) for r in case["filter"]}
        want = [header(LOOP, n)] + [",".join(str(v) for v in r) for r in case["input"]
                                    if tuple(r[n:2 * n]) in present]
        got = open(fo).read().splitlines()
        if got != want:
            raise Violation("filterTrace", f"kept rows {got[1:]} but the rows whose point occurs in the filter "
                            f"are {want[1:]} (filter points {sorted(present)})")
        kept = len(want) - 1
        rec.cls("some-kept-some-dropped", 0 < kept < len(case["input"]))
        rec.cls("filter-deeper-than-input", m > n)
        rec.cls("filter-has-repeated-prefix", len(present) < len(case["filter"]))
        rec.nontrivial(0 < kept < len(case["input"]) and len(present) < len(case["filter"]))
    finally:
        shutil.rmtree(d, ignore_errors=True)


# --------------------------------------------------------------------------
# part "combine": Traffic._combineTraces
# --------------------------------------------------------------------------

@st.composite
def combine_cases(draw):
    n = draw(st.integers(1, 3))
    stamp = st.tuples(*[st.integers(0, 2)] * n)

    def rows():
        ss = sorted(draw(st.lists(stamp, max_size=7)))       # non-decreasing, repeats allowed
        return [list(s) + [draw(st.integers(0, 3)) for _ in range(n)] + [draw(st.integers(0, 9))] for s in ss]
    kind = draw(st.sampled_from(["rw", "rw", "rw", "r", "w"]))
    return {"n": n, "read": rows() if "r" in kind else None, "write": rows() if "w" in kind else None}


def check_combine(case, rec):
    n = case["n"]
    d = tempfile.mkdtemp(prefix="c17c-")
    try:
        args = {"comb_fn": os.path.join(d, "comb.csv")}
        names = ["comb.csv"]
        for acc in ("read", "write"):
            if case[acc] is not None:
                p = os.path.join(d, f"t-N-populate_{acc}_0.csv")
                write_rows(p, LOOP, n, case[acc])
                args[acc + "_fn"] = p
                names.append(os.path.basename(p))
        with scratch_env(d) as env:
            Traffic._combineTraces(**args)
            left = [x for x in listing(d) if x not in (os.path.basename(env.tmp), os.path.basename(env.cwd))]
        if left != sorted(names):
            raise Violation("temp-files", f"_combineTraces left {left}")
        # stable merge: repeatedly take the write head only if its stamp is strictly earlier
        rd = [(tuple(r[:n]), r, False) for r in case["read"] or []]
        wr = [(tuple(r[:n]), r, True) for r in case["write"] or []]
        merged = []
        while rd or wr:
            if wr and (not rd or wr[0][0] < rd[0][0]):
                merged.append(wr.pop(0))
            else:
                merged.append(rd.pop(0))
        want = [header(LOOP, n) + ",is_write"] + [",".join(str(v) for v in r) + "," + str(w) for _, r, w in merged]
        got = open(args["comb_fn"]).read().splitlines()
        if got != want:
            raise Violation("combineTraces", f"combined trace {got} is not the stable merge {want}")
        ties = bool(case["read"] and case["write"] and
                    {tuple(r[:n]) for r in case["read"]} & {tuple(r[:n]) for r in case["write"]})
        rec.cls("read-write-stamp-tie", ties)
        rec.cls("one-sided", case["read"] is None or case["write"] is None)
        rec.nontrivial(ties and len(merged) >= 4)
    finally:
        shutil.rmtree(d, ignore_errors=True)


PARTS.append(Part("enum", None, check_enum, n_quick=0, n_thorough=0, enumerate=enum_cases,
                  exhaustive_note="every read-only single-binding access pattern (up to renaming of lines) over <= 3 "
                                  "lines: cache up to 5 (quick) / 7 (thorough) accesses x capacity 0..3 lines against "
                                  "the exhaustive optimum; buffet up to 4 / 5 accesses x every split into eviction "
                                  "windows"))
PARTS.append(Part("filter", filter_cases(), check_filter, n_quick=400, n_thorough=2000))
PARTS.append(Part("combine", combine_cases(), check_combine, n_quick=300, n_thorough=1500))


# --------------------------------------------------------------------------
# pinned reproducers of the recorded findings
# --------------------------------------------------------------------------

def _call(model, bindings, tensors, traces, capacity, line_sz):
    """tiny direct driver: tensors {name: (rank_ids, shape, spec)}, traces
    {(tensor, rank, type, access): (n, rows)} over loop ranks LOOP[:n]"""
    d = tempfile.mkdtemp(prefix="c17p-")
    try:
        formats = {k: Format(Tensor(rank_ids=list(r), shape=list(sh)), {x: dict(v) for x, v in spec.items()})
                   for k, (r, sh, spec) in tensors.items()}
        fns = {}
        for i, (key, (n, rows)) in enumerate(sorted(traces.items())):
            fns[key] = os.path.join(d, f"p{i}-{LOOP[n - 1]}-{key[3]}.csv")
            write_rows(fns[key], LOOP, n, rows)
        fn = Traffic.buffetTraffic if model == "buffet" else Traffic.cacheTraffic
        return fn([dict(b) for b in bindings], formats, fns, capacity, line_sz)
    finally:
        shutil.rmtree(d, ignore_errors=True)


def pinned_p12():
    """Z[M] (shape 2) is written at position 3 -- the insertion staging area,
    never written back.  Listing an unrelated read-only binding of B[M]
    (shape 8) after it makes the model charge a write-back for Z."""
    tensors = {"Z": (["M"], [2], {"M": {"pbits": 32}}), "B": (["M"], [8], {"M": {"pbits": 32}})}
    traces = {("Z", "M", "payload", "read"): (1, [[0, 0, 3]]),
              ("Z", "M", "payload", "write"): (1, [[1, 0, 3]]),
              ("B", "M", "payload", "read"): (1, [[0, 0, 0]])}
    bz = {"tensor": "Z", "rank": "M", "type": "payload", "evict-on": "root"}
    bb = {"tensor": "B", "rank": "M", "type": "payload", "evict-on": "root"}
    z_last, _ = _call("buffet", [bb, bz], tensors, traces, 1024, 32)
    z_first, _ = _call("buffet", [bz, bb], tensors, traces, 1024, 32)
    if z_last["Z"]["write"] != 0 or z_first["Z"]["write"] != 0:
        return (f"write to the staging area of Z (position 3 >= shape 2) charged {z_first['Z']['write']} bits "
                f"when B (shape 8) is listed after Z, {z_last['Z']['write']} bits when B is listed first; "
                f"expected 0 in both")
    return None


def pinned_p19():
    """(a) A[M] coord (with a write trace: position 1 >= shape 1 is a pinned
    staging line) and A[M] payload share a cache; at the last use of the pinned
    coord line the head of the next-use queue is the payload line with the same
    coordinates and is removed instead.  (b) one binding, read and write row
    with the same stamp on two resident lines."""
    out = []
    tensors = {"A": (["M"], [1], {"M": {"cbits": 1, "pbits": 1}})}
    traces = {("A", "M", "coord", "read"): (1, [[0, 0, 0], [1, 0, 1]]),
              ("A", "M", "coord", "write"): (1, [[0, 0, 1]]),
              ("A", "M", "payload", "read"): (1, [[0, 0, 1], [1, 0, 1]])}
    bind = [{"tensor": "A", "rank": "M", "type": "coord"}, {"tensor": "A", "rank": "M", "type": "payload"}]
    try:
        got = _call("cache", bind, tensors, traces, 2, 1)
        if got != ({"A": {"read": 2, "write": 0}}, 0):
            out.append(f"(a) two bindings with equal line coordinates: {got}, expected 2 fills, no write-back")
    except AssertionError as e:
        out.append(f"(a) two bindings with equal line coordinates: AssertionError in {_lib_assert_site(e)}")
    tensors = {"A": (["M"], [2], {"M": {"cbits": 1, "pbits": 1}})}
    traces = {("A", "M", "coord", "read"): (1, [[0, 0, 0], [1, 0, 1], [2, 0, 0]]),
              ("A", "M", "coord", "write"): (1, [[0, 0, 1], [1, 0, 0]])}
    try:
        got = _call("cache", bind[:1], tensors, traces, 2, 1)
        if got != ({"A": {"read": 1, "write": 2}}, 0):
            out.append(f"(b) read/write rows with one stamp on two resident lines: {got}, expected 1 fill, "
                       f"2 write-backs")
    except AssertionError as e:
        out.append(f"(b) read/write rows with one stamp on two resident lines: AssertionError in "
                   f"{_lib_assert_site(e)}")
    return "; ".join(out) or None


PINNED = {P12: pinned_p12, P19: pinned_p19}


def coverage_warnings(rec):
    def n(k):
        return rec.classes.get(k, 0)
    out = []
    for k, base, floor in (("traffic:reuse-in-2-windows", "traffic:buffet", 0.15),
                           ("traffic:capacity-pressure", "traffic:cache", 0.25),
                           ("traffic:has-write", "traffic:cache", 0.3),
                           ("traffic:staging-access", "traffic:cache", 0.2),
                           ("traffic:exhaustive-optimum", "traffic:cache", 0.2),
                           ("kernel:has-write", "kernel:cache", 0.3),
                           ("filter:some-kept-some-dropped", "filter:filter-deeper-than-input", 0.3)):
        if n(base) and n(k) / n(base) < floor:
            out.append(f"{k} only {n(k)} against {n(base)} {base}")
    return out
