"""C01 -- fibertrees stay well-formed under every history of public mutations."""

from hypothesis import strategies as st

from fibertree import Fiber, Payload, Tensor, CoordPayload

from .. import build, gen, model, observe, findings, machine
from ..core import Part, Violation

ID = "C01"
RULE = ("A TreeSpec (depth 1-3, explicit defaults and empty sub-fibers generated on purpose) is built as an owned "
        "tensor through a drawn construction route or as an unowned fiber tree, then a generated history of 1-25 "
        "(60 in thorough) public mutators is interpreted against it: reference access (full points and prefixes) "
        "with <<= / += / *= / reset to default, append (above / equal / below the last coordinate), extend "
        "(disjoint / overlapping / empty / all-default), position assignment with values and CoordPayloads at "
        "positions in [-len-1, len+1], fiber += / *= with scalars and fibers, fiber assignment from owned and "
        "unowned sources, populate loops with generated body plans nested to the tree's depth, dense reference "
        "iteration, updateCoords with injective maps (reverse, shift, permutation), updatePayloads, clear, "
        "getPositionRef. Oracle after EVERY step: the raw tree is well-formed (equal-length lists, strictly "
        "increasing coordinates, singly boxed leaves at one depth, fibers above); a call rejected for coordinate "
        "order left the snapshot unchanged; only documented rejections are accepted as exceptions. Non-trivial: "
        ">=5 successful steps of >=3 kinds on a tree that held an explicit default or empty sub-fiber, or a "
        "history containing a rejected call. The deprecated public mutators insertOrLookup (any coordinate) and "
        "insert (absent coordinates) are part of the histories. Part typed-leaves: one-level fibers (owned or not) "
        "built through three constructors and changed through append / extend / position assignment / reference "
        "assignment / insert with values of every type maybe_box documents (bool, float, int, str, tuple, "
        "frozenset); nothing is computed with them, every leaf must stay singly boxed. Distinct = SHA-1 of the "
        "case.")
ASSUMPTIONS = ["payload kinds match the level (a Fiber is never written into a leaf slot)",
               "updateCoords functions are injective (the docstring says uniqueness is unchecked)",
               "sub-fibers are appended / replaced by hand only in unowned trees"]


@st.composite
def cases(draw, max_steps=25):
    spec = draw(gen.tree_specs(max_depth=3, max_shape=6, defaults=(0, 0, 0, 2), auth="any"))
    hows = ["ref", "fiber", "uncompressed", "yaml", "deepcopy"]
    if len(spec["shape"]) <= 2:
        # an unowned fiber only knows the default of the next level: missing paths can be created
        # reliably in unowned trees of depth <= 2 only (deeper trees are tensors in every caller)
        hows += ["unowned", "unowned", "unowned"]
    how = draw(st.sampled_from(hows))
    ops = draw(st.lists(machine.op(kinds=machine.MUTATORS + ["insert", "elem_assign", "populate"], default=spec["default"]), min_size=1,
                        max_size=max_steps))
    return {"spec": spec, "how": how, "ops": ops}


def check(case, rec):
    m = machine.Machine(case["spec"], case["how"])
    d = m.d
    observe.wellformed(m.root, d, "initial tree")
    noisy = model.has_explicit_default(case["spec"]["tree"], d, m.default) or model.has_empty_subfiber(case["spec"]["tree"], d)
    ok_kinds = []
    rejected = 0
    for i, o in enumerate(case["ops"]):
        outcome, info = m.step(o)
        where = f"after step {i} ({o['op']} -> {outcome} {info})"
        observe.wellformed(m.root, d, where)
        if outcome == "ok":
            ok_kinds.append(o["op"])
        elif outcome == "rejected":
            rejected += 1
            rec.cls("rejected:" + o["op"])
        if not noisy:
            tr = observe.tree_of(m.root)
            noisy = model.has_explicit_default(tr, d, m.default) or (d > 1 and model.has_empty_subfiber(tr, d))
        rec.cls(o["op"])
        if isinstance(info, dict) and info.get("resort"):
            rec.cls("resorting-updateCoords")
    rec.cls("owned" if m.owned else "unowned")
    rec.cls("has-rejection", rejected > 0)
    rec.cls("has-populate", "populate" in ok_kinds)
    rec.cls(f"depth{d}")
    rec.nontrivial((len(ok_kinds) >= 5 and len(set(ok_kinds)) >= 3 and noisy) or rejected > 0)


# ---------------------------------------------------------------- leaves of every boxed type
# maybe_box documents the boxed value types: bool, float, int, str, tuple, frozenset.  The history part
# computes with its values, so it draws numbers; here nothing is computed and every type is stored through
# every storing entry point.
TYPED = [["int", 3], ["int", -2], ["float", 1.5], ["bool", True], ["str", "a"], ["str", ""], ["tuple", [1, 2]],
         ["tuple", []], ["fset", [1, 2]], ["int", 7]]


def typed_value(tv):
    kind, v = tv
    return {"tuple": tuple, "fset": frozenset}.get(kind, lambda x: x)(v)


@st.composite
def typed_cases(draw):
    tv = st.sampled_from(TYPED)
    n = draw(st.integers(0, 3))
    init = [[2 * i + 1, draw(tv)] for i in range(n)]
    ops = draw(st.lists(st.tuples(st.sampled_from(["append", "setitem", "setitem_cp", "ref", "insertOrLookup", "insert",
                                                   "extend"]),
                                  st.integers(0, 9), tv), min_size=1, max_size=6))
    return {"init": init, "ops": [list(o) for o in ops], "owned": draw(st.booleans()),
            "ctor": draw(st.sampled_from(["lists", "coordpayloads", "uncompressed", "initial"]))}


def check_typed(case, rec):
    init = [(c, typed_value(tv)) for c, tv in case["init"]]
    if case["ctor"] == "lists":
        f = Fiber([c for c, _ in init], [v for _, v in init], shape=20)
    elif case["ctor"] == "coordpayloads":
        f = Fiber.fromCoordPayloadList([(c, v) for c, v in init], shape=20) if init else Fiber(shape=20)
    elif case["ctor"] == "initial":
        # coordinates only, every payload initialised to one value
        v0 = init[0][1] if init else 1
        init = [(c, v0) for c, _ in init]
        f = Fiber([c for c, _ in init], initial=v0, shape=20)
    else:
        nest = [0] * 20
        for c, v in init:
            nest[c] = v
        f = Fiber.fromUncompressed(nest)
    if case["owned"]:
        t = Tensor.fromFiber(["K"], f, shape=[20])
        f = t.getRoot()
    observe.wellformed(f, 1, f"typed leaves: constructor ({case['ctor']}) with {init}")
    for name, k, tv in case["ops"]:
        v = typed_value(tv)
        last = f.coords[-1] if f.coords else -1
        if name == "append":
            if last + 1 >= 20:
                continue
            f.append(last + 1 + k % 2, v)
        elif name == "extend":
            if last + 2 >= 20:
                continue
            f.extend(Fiber([last + 1, last + 2], [v, v]))
        elif name in ("setitem", "setitem_cp"):
            if not f.coords:
                continue
            pos = k % len(f.coords)
            f[pos] = v if name == "setitem" else CoordPayload(f.coords[pos], v)
        elif name == "ref":
            ref = f.getPayloadRef(k % 20)
            ref <<= v
        elif name == "insertOrLookup":
            f.insertOrLookup(k % 20, v)
        elif name == "insert":
            if k % 20 in f.coords:
                continue
            f.insert(k % 20, v)
        observe.wellformed(f, 1, f"typed leaves: after {name}({k}, {v!r}) coords={f.coords} payloads={f.payloads}")
        rec.cls(name)
        rec.cls("type-" + tv[0])
    rec.cls("owned" if case["owned"] else "unowned")
    rec.nontrivial(len({tv[0] for _, _, tv in case["ops"]} | {tv[0] for _, tv in case["init"]}) >= 3)


PARTS = [Part("history", cases(25), check, n_quick=3000, n_thorough=15000),
         Part("typed-leaves", typed_cases(), check_typed, n_quick=800, n_thorough=3000),
         Part("long-history", cases(60), check, n_quick=0, n_thorough=3000)]


def coverage_warnings(rec):
    n = max(1, sum(v for k, v in rec.classes.items() if k.startswith("history:depth")))
    out = []
    for k, floor in (("history:has-rejection", 0.15), ("history:has-populate", 0.3), ("history:resorting-updateCoords", 0.05)):
        if rec.classes.get(k, 0) / n < floor:
            out.append(f"{k} only {rec.classes.get(k, 0)}/{n}")
    return out


def _pin_p8():
    f = Fiber([1, 5, 9], [1, 2, 3])
    try:
        f[-1] = CoordPayload(3, 7)
    except Exception as e:
        if type(e).__name__ == "CoordinateError":
            return None
        raise
    if f.coords != sorted(f.coords):
        return f"f[-1] = CoordPayload(3, 7) on coords [1, 5, 9] stored out-of-order coordinates {f.coords}"
    return None


def _pin_p7a():
    t = Tensor(rank_ids=["M", "K"], shape=[2, 2], default=0)
    t.getPayloadRef(0, 0).__ilshift__(1)
    sub = t.getRoot().getPayloadRef(0)
    before = t.ranks[0].getDefault()
    t.getRoot().__ilshift__(Fiber())
    after = t.ranks[0].getDefault()
    if after is not before and not (isinstance(after, type) and issubclass(after, Fiber)):
        return f"root <<= Fiber() changed the default of rank M from Fiber to {after!r}"
    return None


def _pin_p43():
    f = Fiber([1, 3], [2, 4])
    f.updatePayloads(lambda i, c, p: p.value + 1)
    bad = [p for p in f.payloads if not isinstance(p, Payload)]
    return f"updatePayloads(lambda i, c, p: p.value + 1) stored unboxed leaf payloads {bad}" if bad else None


PINNED = {"P43-updatePayloads-stores-plain-value-unboxed": _pin_p43, "P8-setitem-negative-position": _pin_p8,
          "P7a-fiber-assignment-overwrites-rank-default": _pin_p7a}
