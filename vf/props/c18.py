"""C18 -- Format footprints add up from the tree exactly."""

import copy
import itertools

from hypothesis import strategies as st

from fibertree import Tensor
from fibertree.model import Format

from .. import build, gen, model, observe
from ..core import Part, Violation

ID = "C18"
RULE = ("Tensors of depth 1-3 (shapes 1-5 per rank, 1-4 at depth 3, rank ids drawn from a pool in any order, leaf default 0 or 3, "
        "explicit-default leaves and empty sub-fibers generated on purpose) are built through a drawn vf/build.py "
        "route (getPayloadRef / Fiber constructor + fromFiber / fromUncompressed + mutation / YAML / deepcopy), "
        "optionally with the tensor-side rank format attribute set to U, and paired with a drawn specification: each "
        "rank key absent, {} or any subset of format, rhbits, fhbits, cbits, pbits, layout; 'root' absent or any subset "
        "of hbits, pbits. Oracle (pure Python over a raw walk of Fiber.coords/payloads plus the declared shape): "
        "fiber = fhbits + (cbits+pbits) * (stored elements if C else shape); rank = rhbits + sum over the fibers at "
        "that depth; tensor = root hbits+pbits + sum of ranks; sub-tree below a partial point = sum over the fibers "
        "reachable through stored children holding a non-default leaf (C) / through every coordinate of the shape, an "
        "absent child being an empty fiber (U); full-depth point = leaf cbits+pbits; every getter, getElem and the "
        "filled Format.spec read missing fields back as 0 / 'C' / 'contiguous'. getFiber and getSubTree are queried at "
        "EVERY partial point of the shape (stored, stored-but-empty and absent), getSubTree at up to 4 full-depth "
        "points, getRank at every rank, and getTensor/getRank are re-queried after the sub-tree walks. Part 'small' "
        "enumerates all trees over tiny shapes x all C/U assignments with place-value bit widths (every field a "
        "distinct power of 32, so each component count is pinned separately). Non-trivial: >= 2 ranks whose effective "
        "formats differ and a stored explicit-default leaf in the tree. Distinct = SHA-1 of the generated case.")
ASSUMPTIONS = ["tensor shapes are authoritative (declared at construction), so 'the shape' of an uncompressed fiber is the "
               "declared shape of its rank; estimated shapes are not generated",
               "rank lists are free of stale fibers (freshly built tensors; pollution by ==/union is C02's subject)",
               "bit widths are non-negative Python ints; formats/layouts only from the documented option lists",
               "query points have length <= depth and every coordinate inside the declared shape"]

INT_FIELDS = ["rhbits", "fhbits", "cbits", "pbits"]
RANK_FIELDS = ["format"] + INT_FIELDS + ["layout"]
ROOT_FIELDS = ["hbits", "pbits"]
ID_POOL = ["M", "K", "N", "P", "A", "Z"]


# ---------------------------------------------------------------- oracle

def fill(fspec, rank_ids):
    """Statement: missing fields default to zero bits, compressed, contiguous."""
    full = {"root": {"hbits": 0, "pbits": 0}}
    full["root"].update(fspec.get("root", {}))
    for r in rank_ids:
        d = {"format": "C", "rhbits": 0, "fhbits": 0, "cbits": 0, "pbits": 0, "layout": "contiguous"}
        d.update(fspec.get(r, {}))
        full[r] = d
    return full


def fiber_fp(full, rank_ids, shape, lvl, nstored):
    s = full[rank_ids[lvl]]
    n = nstored if s["format"] == "C" else shape[lvl]
    return s["fhbits"] + (s["cbits"] + s["pbits"]) * n


def holds_value(child, levels_below, default):
    """child (raw sub-tree with `levels_below` levels, or a leaf value when 0)
    is non-empty: some leaf below differs from the default."""
    if levels_below == 0:
        return child != default
    return any(holds_value(ch, levels_below - 1, default) for _, ch in child)


def subtree_fp(full, rank_ids, shape, default, node, lvl):
    """Footprint of the sub-tree rooted at the fiber `node` (raw list of
    [coord, child]) living at level `lvl`."""
    d = len(rank_ids)
    total = fiber_fp(full, rank_ids, shape, lvl, len(node))
    if lvl == d - 1:
        return total
    if full[rank_ids[lvl]]["format"] == "C":
        for _, ch in node:
            if holds_value(ch, d - lvl - 1, default):
                total += subtree_fp(full, rank_ids, shape, default, ch, lvl + 1)
    else:
        stored = {model.tuplify(c): ch for c, ch in node}
        for c in range(shape[lvl]):
            total += subtree_fp(full, rank_ids, shape, default, stored.get(c, []), lvl + 1)
    return total


def node_at(tree, point):
    """(fiber found by following `point` through stored coordinates or [],
    'stored' | 'absent')."""
    node = tree
    status = "stored"
    for c in point:
        nxt = None
        for cc, ch in node:
            if model.tuplify(cc) == c:
                nxt = ch
                break
        if nxt is None:
            return [], "absent"
        node = nxt
    return node, status


def fibers_per_level(tree, d):
    levels = [[] for _ in range(d)]

    def rec(node, lvl):
        levels[lvl].append(node)
        if lvl < d - 1:
            for _, ch in node:
                rec(ch, lvl + 1)

    rec(tree, 0)
    return levels


# ---------------------------------------------------------------- generator

widths = st.one_of(st.sampled_from([0, 1, 2, 8, 16, 32, 64]), st.integers(0, 130), st.integers(1, 130))


@st.composite
def rank_spec(draw):
    mode = draw(st.sampled_from(["absent", "empty", "full", "full"] + ["subset"] * 8))
    if mode == "absent":
        return None
    if mode == "empty":
        return {}
    fields = RANK_FIELDS if mode == "full" else \
        [f for f in RANK_FIELDS if draw(st.integers(0, 3)) > 0]
    out = {}
    for f in fields:
        if f == "format":
            out[f] = draw(st.sampled_from(["C", "U", "U"]))
        elif f == "layout":
            out[f] = draw(st.sampled_from(["contiguous", "interleaved"]))
        else:
            out[f] = draw(widths)
    return out


@st.composite
def noisy_tree(draw, shape, default):
    """Nested [[coord, child]...]: each coordinate stored with p~0.55, leaves
    equal to the default with p~0.3, interior children empty with p~0.15."""
    coords = [c for c in range(shape[0]) if draw(st.integers(0, 8)) < 5]
    out = []
    for c in coords:
        if len(shape) == 1:
            if draw(st.integers(0, 9)) < 3:
                out.append([c, default])
            else:
                out.append([c, draw(gen.nondefault_values(default, floats=True))])
        elif draw(st.integers(0, 19)) < 3:
            out.append([c, []])
        else:
            out.append([c, draw(noisy_tree(shape[1:], default))])
    return out


@st.composite
def cases(draw):
    d = draw(st.sampled_from([1, 2, 2, 3, 3, 3]))
    shape = [draw(st.integers(1, 5 if d < 3 else 4)) for _ in range(d)]
    rank_ids = draw(st.permutations(ID_POOL))[:d]
    default = draw(st.sampled_from([0, 0, 0, 3]))
    tree = {"rank_ids": rank_ids, "shape": shape, "default": default, "auth": True,
            "tree": draw(noisy_tree(shape, default))}
    fspec = {}
    for r in rank_ids:
        rs = draw(rank_spec())
        if rs is not None:
            fspec[r] = rs
    rmode = draw(st.sampled_from(["absent", "absent", "empty", "subset", "subset"]))
    if rmode == "empty":
        fspec["root"] = {}
    elif rmode == "subset":
        fspec["root"] = {f: draw(widths) for f in ROOT_FIELDS if draw(st.booleans())}
    tfmt = None
    if draw(st.integers(0, 3)) == 0:
        tfmt = [draw(st.sampled_from(["C", "U"])) for _ in range(d)]
    return {"tree": tree, "route": draw(gen.routes), "fspec": fspec, "tfmt": tfmt,
            "sel": [draw(st.integers(0, 10000)) for _ in range(3)],
            "split": draw(st.one_of(st.none(), st.tuples(st.integers(0, 3), st.integers(0, 5)))),
            "mutate": draw(st.one_of(st.none(), st.none(), st.tuples(st.integers(0, 5), st.integers(0, 5), st.integers(0, 1)))),
            "late": draw(st.one_of(st.none(), st.tuples(st.integers(0, 11), st.integers(0, 2))))}


def _small_trees(shape, leaf_opts):
    """every tree over `shape` whose leaves are absent or one of leaf_opts."""
    if len(shape) == 1:
        per = [[None] + list(leaf_opts)] * shape[0]
    else:
        sub = _small_trees(shape[1:], leaf_opts)
        per = [[None] + sub] * shape[0]
    out = []
    for combo in itertools.product(*per):
        out.append([[c, copy.deepcopy(ch)] for c, ch in enumerate(combo) if ch is not None])
    return out


def small_cases(tier):
    shapes = [[3], [2, 2], [1, 2, 2]]
    if tier == "thorough":
        shapes += [[2, 1, 2], [2, 2, 2], [3, 2]]
    i = 0
    for shape in shapes:
        d = len(shape)
        rank_ids = ["M", "K", "N"][:d]
        for tree in _small_trees(shape, [0, 5]):
            for fmts in itertools.product("CU", repeat=d):
                fspec = {"root": {"hbits": 32 ** 0, "pbits": 32 ** 1}}
                e = 2
                for r, f in zip(rank_ids, fmts):
                    fspec[r] = {"format": f}
                    for fld in INT_FIELDS:
                        fspec[r][fld] = 32 ** e
                        e += 1
                yield {"tree": {"rank_ids": rank_ids, "shape": shape, "default": 0, "auth": True, "tree": tree},
                       "route": build.ROUTES[i % len(build.ROUTES)], "fspec": fspec, "tfmt": None, "sel": [i, i + 1, i + 2],
                       "late": [i, i // 3] if i % 2 else None}
                i += 1
    # empty tensors created without a shape (every shape is 0 then; with elements the shape of an ABSENT fiber
    # of an uncompressed rank would be ambiguous -- the rank's estimate or the empty fiber's own)
    for d in (1, 2, 3):
        rank_ids = ["M", "K", "N"][:d]
        for route in ("ref", "fiber", "yaml", "deepcopy"):      # (a nest of lists always declares its shape)
            for fmts in itertools.product("CU", repeat=d):
                fspec = {r: {"format": f, "fhbits": 7, "cbits": 100, "pbits": 1000, "rhbits": 3}
                         for r, f in zip(rank_ids, fmts)}
                yield {"tree": {"rank_ids": rank_ids, "shape": [4] * d, "default": 0, "auth": False, "tree": []},
                       "route": route, "fspec": fspec, "tfmt": None, "sel": [0, 1, 2], "late": None}


# ---------------------------------------------------------------- check

def _expect(what, got, want, ctx):
    if type(got) is not int or got != want:
        raise Violation(what, f"{what}: library returned {got!r}, the sum over the tree is {want}; {ctx}")


def check(case, rec):
    tspec = case["tree"]
    rank_ids = list(tspec["rank_ids"])
    shape = list(tspec["shape"])
    default = tspec["default"]
    d = len(rank_ids)

    t = build.build_tensor(tspec, case["route"])
    qshape = None
    if not tspec.get("auth", True):
        # no declared shape (enumerated empty tensors only): every rank's shape is the estimate 0
        case = dict(case, mutate=None, split=None, late=None)
        est = [0] * d

        def grow(tr, lvl):
            for c, ch in tr:
                est[lvl] = max(est[lvl], c + 1)
                if lvl < d - 1:
                    grow(ch, lvl + 1)
        grow(tspec["tree"], 0)
        shape = est
        qshape = [2] * d        # no shape is declared, so any coordinate may be asked about
        rec.cls("undeclared-shape")
        rec.cls("undeclared-shape-empty-rank", 0 in est)
    if case["tfmt"]:
        for r, f in zip(rank_ids, case["tfmt"]):
            t.setFormat(r, f)

    # optionally clear / re-assign a fiber first: the footprints must describe the live tree, not fibers that
    # are no longer part of it
    mu = case.get("mutate")
    if mu and d >= 2 and t.getRoot().payloads:
        f = t.getRoot().payloads[mu[0] % len(t.getRoot().payloads)]
        if d == 3 and f.payloads and mu[1] % 2:
            f = f.payloads[mu[1] % len(f.payloads)]
        if mu[2] % 2:
            f.clear()
        else:
            sib = t.getRoot().payloads[(mu[0] + 1) % len(t.getRoot().payloads)]
            if sib is not f and f.getOwner() is sib.getOwner():
                f <<= sib
            else:
                f.clear()
        rec.cls("mutated-before-query")

    # optionally query a split tensor: its lower fibers carry explicit active ranges smaller than the
    # shape, which must not matter ("through every coordinate of the shape of an uncompressed rank")
    fspec_in = case["fspec"]
    sp = case.get("split")
    if sp and d <= 2 and not (case["tfmt"] and "U" in case["tfmt"]):
        k = sp[0] % d
        t = t.splitUniform(1 + sp[1] % shape[k], depth=k)
        old = rank_ids[k]
        rank_ids = list(t.getRankIds())
        shape = list(t.getShape())
        d = len(rank_ids)
        fspec_in = {key: val for key, val in case["fspec"].items() if key != old}
        if old in case["fspec"]:
            fspec_in[old + ".1"] = copy.deepcopy(case["fspec"][old])
            fspec_in[old + ".0"] = copy.deepcopy(case["fspec"][old])
        rec.cls("split-tensor")
    case = dict(case, fspec=fspec_in)

    given = copy.deepcopy(case["fspec"])
    full = fill(case["fspec"], rank_ids)
    fm = Format(t, given)

    # -- defaults of missing fields, read back through every getter
    for r in rank_ids:
        s = full[r]
        for name, got, want in (("getCBits", fm.getCBits(r), s["cbits"]), ("getPBits", fm.getPBits(r), s["pbits"]),
                                ("getFHBits", fm.getFHBits(r), s["fhbits"]), ("getRHBits", fm.getRHBits(r), s["rhbits"]),
                                ("getFormat", fm.getFormat(r), s["format"]), ("getLayout", fm.getLayout(r), s["layout"]),
                                ("getElem-coord", fm.getElem(r, "coord"), s["cbits"]),
                                ("getElem-payload", fm.getElem(r, "payload"), s["pbits"]),
                                ("getElem-elem", fm.getElem(r, "elem"), s["cbits"] + s["pbits"])):
            if got != want or type(got) is not type(want):
                raise Violation("field-readback", f"{name}({r!r}) = {got!r}, expected {want!r}; given spec {case['fspec']}")

    allpts = list(itertools.product(*[range(s) for s in shape]))

    def survey(tag):
        """every footprint query against the sums over the tree as it is NOW (the same Format object)"""
        # raw walk of the real tree: the oracle's only view of the tensor
        raw = observe.tree_of(t.getRoot())
        levels = fibers_per_level(raw, d)
        ctx = f"tree={raw} shape={shape} rank_ids={rank_ids} spec={case['fspec']}{tag}"
        _expect("getRoot", fm.getRoot(), full["root"]["hbits"] + full["root"]["pbits"], ctx)

        # -- ranks and tensor
        def rank_total(i):
            return full[rank_ids[i]]["rhbits"] + sum(fiber_fp(full, rank_ids, shape, i, len(n)) for n in levels[i])

        want_ranks = [rank_total(i) for i in range(d)]
        want_tensor = full["root"]["hbits"] + full["root"]["pbits"] + sum(want_ranks)

        def ranks_and_tensor(tag2):
            for i, r in enumerate(rank_ids):
                _expect(f"getRank{tag2}", fm.getRank(r), want_ranks[i],
                        f"rank {r} (depth {i}, {len(levels[i])} fibers with {[len(n) for n in levels[i]]} elements); "
                        f"{ctx}")
            _expect(f"getTensor{tag2}", fm.getTensor(), want_tensor, ctx)

        ranks_and_tensor("")

        # -- every partial point of the shape: fiber and sub-tree footprints
        n_absent = n_stored_empty = 0
        for k in range(d):
            for point in itertools.product(*[range(s) for s in (qshape or shape)[:k]]):
                node, status = node_at(raw, point)
                if status == "absent":
                    n_absent += 1
                elif k > 0 and not holds_value(node, d - k, default):
                    n_stored_empty += 1
                _expect("getFiber", fm.getFiber(*point), fiber_fp(full, rank_ids, shape, k, len(node)),
                        f"point={point} ({status}, {len(node)} stored elements, rank {rank_ids[k]}); {ctx}")
                _expect("getSubTree", fm.getSubTree(*point), subtree_fp(full, rank_ids, shape, default, node, k),
                        f"point={point} ({status}); {ctx}")

        # -- full-depth points: one element of the leaf rank
        leaf = full[rank_ids[-1]]
        stored_pts = sorted(p for p in allpts if node_at(raw, p[:-1])[1] == "stored"
                            and any(model.tuplify(c) == p[-1] for c, _ in node_at(raw, p[:-1])[0]))
        picks = [allpts[s % len(allpts)] for s in case["sel"]] if allpts else []
        if stored_pts:
            picks.append(stored_pts[case["sel"][0] % len(stored_pts)])
        for p in picks:
            # (below a leaf element there is no fiber: the statement's sum is empty there; the element's own
            # coordinate + payload bits, which the library reports, is the other natural reading)
            got_leaf = fm.getSubTree(*p)
            if type(got_leaf) is not int or got_leaf not in (0, leaf["cbits"] + leaf["pbits"]):
                raise Violation("getSubTree-leaf", f"getSubTree at the full-depth point {p} = {got_leaf!r}, expected 0 or "
                                f"one element ({leaf['cbits'] + leaf['pbits']} bits); {ctx}")

        # -- the sub-tree walks must not have changed what a rank / the tensor holds
        ranks_and_tensor("-again")
        return raw, levels, n_absent, n_stored_empty

    raw, levels, n_absent, n_stored_empty = survey("")

    # -- the tensor changes after the Format object was built and queried (the normal flow for an output
    # tensor: describe it, run the kernel, ask again): the same object must describe the tree as it is now
    late = case.get("late")
    if late and not sp:
        p = allpts[late[0] % len(allpts)]
        if late[0] % 4 == 3:
            # the tensor gets another root altogether (the original tree without its first top-level element)
            t.setRoot(build.build_fiber(dict(tspec, tree=tspec["tree"][1:], shape=list(shape))))
            rec.cls("late-setRoot")
        elif late[1] % 3 == 2 and d >= 2 and t.getRoot().payloads:
            t.getRoot().payloads[late[0] % len(t.getRoot().payloads)].clear()
            rec.cls("late-clear")
        else:
            ref = t.getPayloadRef(*p)
            ref <<= (7 if late[1] % 3 == 0 else default)
            rec.cls("late-write")
        changed = observe.tree_of(t.getRoot()) != raw
        rec.cls("late-change-visible", changed)
        survey(" (after a later change of the tensor)")

    # -- classification
    fmts = [full[r]["format"] for r in rank_ids]
    expl = model.has_explicit_default(raw, d, default)
    empt = model.has_empty_subfiber(raw, d)
    mixed = len(set(fmts)) > 1
    rec.cls(f"depth{d}")
    rec.cls("formats-" + "".join(fmts))
    rec.cls("mixed-formats", mixed)
    rec.cls("explicit-default", expl)
    rec.cls("empty-subfiber", empt)
    rec.cls("absent-point-queried", n_absent > 0)
    rec.cls("stored-empty-point-queried", n_stored_empty > 0)
    rec.cls("rank-key-missing", any(r not in case["fspec"] for r in rank_ids))
    rec.cls("field-missing", any(0 < len(case["fspec"].get(r, {})) < 6 for r in rank_ids))
    rec.cls("root-given", "root" in case["fspec"])
    rec.cls("tensor-side-U", bool(case["tfmt"]) and "U" in case["tfmt"])
    rec.cls("nonzero-default", default != 0)
    rec.cls("route-" + case["route"])
    rec.cls("U-over-empty-child", any(fmts[i] == "U" and any(len(n) < shape[i] for n in levels[i]) for i in range(d - 1)))
    rec.cls("C-over-valueless-child", any(fmts[i] == "C" and any(not holds_value(ch, d - 1 - i, default)
                                                                 for n in levels[i] for _, ch in n) for i in range(d - 1)))
    rec.nontrivial(d >= 2 and mixed and expl)


# ---------------------------------------------------------------- tensors without declared shape that grow

@st.composite
def grown_cases(draw):
    d = draw(st.sampled_from([1, 2, 2, 3]))
    shape = [draw(st.integers(2, 4)) for _ in range(d)]
    rank_ids = draw(st.permutations(ID_POOL))[:d]
    fspec = {}
    for r in rank_ids:
        rs = draw(rank_spec())
        if rs is not None:
            fspec[r] = rs
    tree = draw(noisy_tree(shape, 0))
    # later writes, some of them beyond the extent the tensor had when it was built
    writes = [([draw(st.integers(0, s + 2)) for s in shape], draw(st.sampled_from([0, 5, 7])))
              for _ in range(draw(st.integers(1, 3)))]
    return {"rank_ids": rank_ids, "shape": shape, "tree": tree, "fspec": fspec, "writes": writes,
            "route": draw(st.sampled_from(["fiber", "ref"])), "between": draw(st.booleans())}


def check_grown(case, rec):
    """No shape is declared: "the shape" of an uncompressed rank is what the tensor reports, i.e. the extent of
    the rank's fibers as they are NOW.  Only stored fibers are asked about (the shape of an absent fiber of such
    a rank is not defined by the statement)."""
    rank_ids, d = list(case["rank_ids"]), len(case["rank_ids"])
    tspec = {"rank_ids": rank_ids, "shape": case["shape"], "default": 0, "auth": False, "tree": case["tree"]}
    t = build.build_tensor(tspec, case["route"])
    given = copy.deepcopy(case["fspec"])
    full = fill(case["fspec"], rank_ids)
    fm = Format(t, given)

    def survey(tag):
        raw = observe.tree_of(t.getRoot())
        levels = fibers_per_level(raw, d)
        est = [max([model.tuplify(c) + 1 for n in levels[i] for c, _ in n] or [0]) for i in range(d)]
        ctx = f"tree={raw} extent={est} rank_ids={rank_ids} spec={case['fspec']}{tag}"
        if list(t.getShape()) != est:
            # (C14's subject; without it the footprints below have no defined value)
            raise Violation("shape-estimate", f"getShape() = {t.getShape()}, the fibers extend to {est}; {ctx}")
        want_ranks = [full[rank_ids[i]]["rhbits"] + sum(fiber_fp(full, rank_ids, est, i, len(n)) for n in levels[i])
                      for i in range(d)]
        for i, r in enumerate(rank_ids):
            _expect("getRank", fm.getRank(r), want_ranks[i], f"rank {r}; {ctx}")
        _expect("getTensor", fm.getTensor(), full["root"]["hbits"] + full["root"]["pbits"] + sum(want_ranks), ctx)

        def stored_prefixes(node, lvl, prefix):
            yield prefix, node, lvl
            if lvl < d - 1:
                for c, ch in node:
                    yield from stored_prefixes(ch, lvl + 1, prefix + (model.tuplify(c),))
        for prefix, node, lvl in stored_prefixes(raw, 0, ()):
            _expect("getFiber", fm.getFiber(*prefix), fiber_fp(full, rank_ids, est, lvl, len(node)),
                    f"point={prefix} (stored, rank {rank_ids[lvl]}); {ctx}")
        return est

    est0 = survey("") if case["between"] else None
    for pt, v in case["writes"]:
        ref = t.getPayloadRef(*pt)
        ref <<= v
    est1 = survey(" (after writes beyond the extent at construction)")
    fmts = [full[r]["format"] for r in rank_ids]
    grew = any(pt[i] >= case["shape"][i] for pt, _ in case["writes"] for i in range(d))
    rec.cls("grew-beyond-construction", grew)
    rec.cls("surveyed-before-growth", est0 is not None)
    rec.cls("has-U-rank", "U" in fmts)
    rec.cls(f"depth{d}")
    rec.nontrivial(grew and "U" in fmts and bool(case["tree"]))


def _pin_p37():
    t = Tensor(rank_ids=["M", "K"])                      # no shape declared, nothing stored
    fm = Format(t, {"M": {"format": "C"}, "K": {"format": "U", "fhbits": 7, "cbits": 100, "pbits": 1000}})
    try:
        got = fm.getSubTree(0)
    except (IndexError, ValueError) as e:
        return f"getSubTree(0) of an empty tensor without declared shape (rank K uncompressed) raised {type(e).__name__}: {e}"
    return None if got == 7 else f"getSubTree(0) = {got}, an empty uncompressed fiber of estimated shape 0 takes 7 bits"


PINNED = {"P37-shape-of-fiberless-estimated-rank": _pin_p37}


PARTS = [
    Part("small", None, check, n_quick=0, n_thorough=0, enumerate=small_cases,
         exhaustive_note="every tree over shapes [3], [2,2], [1,2,2] (thorough: also [2,1,2], [2,2,2], [3,2]) with each "
                         "leaf absent / explicit default / 5, x every C/U assignment per rank, place-value bit widths, "
                         "all partial points"),
    Part("random", cases(), check, n_quick=3000, n_thorough=12000),
    Part("grown", grown_cases(), check_grown, n_quick=800, n_thorough=4000),
]


def coverage_warnings(rec):
    n = max(1, sum(v for k, v in rec.classes.items() if k.startswith("random:depth")))
    out = []
    for k, floor in (("random:mixed-formats", 0.25), ("random:explicit-default", 0.25), ("random:empty-subfiber", 0.15),
                     ("random:U-over-empty-child", 0.15), ("random:C-over-valueless-child", 0.08),
                     ("random:field-missing", 0.5), ("random:rank-key-missing", 0.1)):
        if rec.classes.get(k, 0) / n < floor:
            out.append(f"{k} only {rec.classes.get(k, 0)}/{n}")
    return out
