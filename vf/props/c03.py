"""C03 -- point access behaves like a map from points to values."""

from hypothesis import strategies as st

from fibertree import Fiber, Payload, Tensor

from .. import build, gen, model, observe, machine
from ..core import Part, Violation

ID = "C03"
RULE = ("A tree of depth 1-3 (canonical or with explicit defaults / empty sub-fibers; owned tensor through every "
        "construction route, or unowned fiber of depth <=2) and a history of 1-30 accessor calls: getPayload at full "
        "points and prefixes (allocate on/off with a caller default), getPayloadRef followed by nothing / <<= / += / "
        "*= / reset-to-default, later writes through handles obtained earlier (aliasing), getPosition / "
        "getPositionRef, 1-coordinate calls with every legal start_pos, Tensor-level forms; a second part covers "
        "rank-0 tensors. Oracle: a dict point->value updated by the writes only; every read returns dict.get(point, "
        "default) (sub-fiber content for prefixes) and leaves the raw snapshot and rank lists unchanged; a reference "
        "IS the stored payload afterwards, creates exactly the missing path, and the full content equals the dict "
        "after every step; results with and without start_pos agree. Non-trivial: >=3 writes, >=1 read of a "
        "never-written point, >=1 aliased write through a handle obtained >=2 steps earlier. Distinct = SHA-1 of case.")
ASSUMPTIONS = ["start_pos is legal: 0, or coords[start_pos] <= coord (asserted by getPayload); plain or boxed",
               "only the listed accessors run, so no handle is ever detached by a removal"]

KINDS = ["read", "read", "read_prefix", "read_noalloc", "ref", "ref", "ref", "handle", "handle", "position",
         "positionRef", "onecoord", "onecoord", "assign_prefix", "elem_assign", "fiber_iadd"]


@st.composite
def ops(draw, default):
    k = draw(st.sampled_from(KINDS))
    return {"op": k, "sel": draw(st.lists(st.integers(0, 9), min_size=4, max_size=4)),
            "path": draw(st.lists(st.integers(0, 7), max_size=3)),
            "val": draw(gen.values(default)), "mode": draw(st.integers(0, 11))}


@st.composite
def cases(draw):
    spec = draw(gen.tree_specs(max_depth=3, max_shape=5, defaults=(0, 0, 0, 2, 1.5), floats=True, auth="any"))
    hows = ["ref", "fiber", "uncompressed", "yaml", "deepcopy"]
    if len(spec["shape"]) <= 2:
        hows += ["unowned", "unowned"]
    return {"spec": spec, "how": draw(st.sampled_from(hows)),
            "ops": draw(st.lists(ops(spec["default"]), min_size=1, max_size=30))}


def apply_write(mdl, pt, act, v, default):
    cur = mdl.get(pt, default)
    if act == 1:
        new = v
    elif act == 2:
        new = cur + v
    elif act == 3:
        new = cur * v
    elif act == 4:
        new = default
    elif act == 5:
        new = cur - v
    else:
        return
    if new == default:
        mdl.pop(pt, None)
    else:
        mdl[pt] = new


def do_write(ref, act, v, default, as_element=False):
    if as_element:
        # the right-hand side is a whole element taken out of a fiber by position
        v = Fiber([0], [v])[0]
    if act == 1:
        ref <<= v
    elif act == 2:
        ref += v
    elif act == 3:
        ref *= v
    elif act == 4:
        ref <<= default
    elif act == 5:
        ref -= v
    return ref


def check(case, rec):
    m = machine.Machine(case["spec"], case["how"])
    d, default = m.d, m.default
    mdl = dict(model.content(case["spec"]))
    written = set(mdl)
    handles = []          # (point, ref, step)
    nwrites = naliased = nfresh_reads = 0

    def frozen():
        return observe.snap(m.root), (observe.rank_lists(m.t) if m.owned else None)

    def same(before, what):
        now = frozen()
        if now[0] != before[0]:
            raise Violation("read-modified-tree", f"{what} changed the tree: {before[0]} -> {now[0]}")
        if now[1] != before[1]:
            raise Violation("read-modified-ranks", f"{what} changed the rank lists")

    def holder(o):
        return m.t if (m.owned and o["mode"] % 3 == 0) else m.root

    for step, o in enumerate(case["ops"]):
        k = o["op"]
        if k == "read":
            pt = m.point(o["sel"], d)
            before = frozen()
            got = holder(o).getPayload(*pt)
            want = mdl.get(pt, default)
            if not isinstance(got, Payload) or isinstance(got.value, (Payload, Fiber)) or got.value != want:
                raise Violation("read-value", f"step {step}: getPayload{pt} returned {got!r}, model says {want}")
            same(before, f"getPayload{pt}")
            if pt not in written:
                nfresh_reads += 1
            if stored_obj(m.root, pt) is ABSENT and o["sel"][3] % 3 == 0:
                # the value handed out for an absent point is the caller's to keep: updating it in place writes
                # nothing, and later reads of never-written points still return the default
                got += 7
                same(before, f"an in-place update of the value read at the absent point {pt}")
                rec.cls("scribbled-on-default")
        elif k == "read_prefix":
            if d == 1:
                continue
            n = 1 + o["mode"] % (d - 1)
            pt = m.point(o["sel"], n)
            before = frozen()
            got = holder(o).getPayload(*pt)
            if not isinstance(got, Fiber):
                raise Violation("read-prefix", f"step {step}: getPayload{pt} (prefix) returned {got!r}, expected a fiber")
            want = {p[n:]: v for p, v in mdl.items() if p[:n] == pt}
            gotc = observe.content_of(got, d - n, default)
            if gotc != want:
                raise Violation("read-prefix", f"step {step}: sub-fiber at {pt} holds {gotc}, model says {want}")
            same(before, f"getPayload{pt}")
        elif k == "read_noalloc":
            n = d if o["mode"] % 3 else 1 + o["mode"] % d
            pt = m.point(o["sel"], n)
            dflt = o["val"] + 100
            before = frozen()
            got = holder(o).getPayload(*pt, allocate=False, default=dflt)
            # stored path -> stored payload; otherwise the caller-supplied default
            sub = {p[n:]: v for p, v in mdl.items() if p[:n] == pt}
            if isinstance(got, Fiber):
                if n == d:
                    raise Violation("read-value", f"step {step}: full point {pt} returned a fiber")
                if observe.content_of(got, d - n, default) != sub:
                    raise Violation("read-prefix", f"step {step}: no-allocate read of {pt}: wrong sub-fiber content")
            else:
                gv = Payload.get(got)
                stored = stored_value(m.root, pt, d)
                if stored is ABSENT:
                    if gv != dflt:
                        raise Violation("read-default", f"step {step}: getPayload{pt}(allocate=False, default={dflt}) "
                                        f"returned {got!r} for an absent point")
                elif n == d and gv != mdl.get(pt, default):
                    raise Violation("read-value", f"step {step}: no-allocate read of stored {pt} returned {got!r}, "
                                    f"model says {mdl.get(pt, default)}")
            same(before, f"getPayload{pt}(allocate=False)")
        elif k == "ref":
            pt = m.point(o["sel"], d)
            before_tree = observe.tree_of(m.root)
            ref = holder(o).getPayloadRef(*pt)
            want = mdl.get(pt, default)
            if not isinstance(ref, Payload) or ref.value != want:
                raise Violation("ref-value", f"step {step}: getPayloadRef{pt} shows {ref!r}, model says {want}")
            if stored_obj(m.root, pt) is not ref:
                raise Violation("ref-alias", f"step {step}: getPayloadRef{pt} is not the payload stored at that point")
            # exactly the missing path was created
            exp_tree = with_path(before_tree, pt, default)
            now_tree = observe.tree_of(m.root)
            if now_tree != exp_tree:
                raise Violation("ref-path", f"step {step}: getPayloadRef{pt} turned {before_tree} into {now_tree}, "
                                f"expected {exp_tree}")
            act = o["mode"] % 6
            # keep the name the in-place operator rebinds, as user code does (z_ref += v; ...; z_ref += w)
            ref = do_write(ref, act, o["val"], default, as_element=(o["sel"][3] % 4 == 3 and act in (2, 3)))
            apply_write(mdl, pt, act, o["val"], default)
            if act:
                nwrites += 1
                written.add(pt)
            handles.append((pt, ref, step))
        elif k == "handle":
            if not handles:
                continue
            hi = o["sel"][0] % len(handles)
            pt, ref, at = handles[hi]
            act = [1, 2, 3, 5][o["mode"] % 4]
            handles[hi] = (pt, do_write(ref, act, o["val"], default), at)
            apply_write(mdl, pt, act, o["val"], default)
            nwrites += 1
            written.add(pt)
            if step - at >= 2:
                naliased += 1
        elif k == "assign_prefix":
            # assignment through a reference at a partial point: the sub-tree under the prefix takes the
            # source's content; afterwards neither side may see the other's updates (checked by the
            # content comparison after every later step)
            if d == 1:
                continue
            n = 1 + o["mode"] % (d - 1)
            pt = m.point(o["sel"], n)
            src_pt = m.point(o["sel"][1:] + o["sel"][:1], n)
            if src_pt == pt:
                continue
            src = holder(o).getPayload(*src_pt)        # another sub-fiber of the same tree (or a fresh empty one)
            src_cont = {p[n:]: v for p, v in mdl.items() if p[:n] == src_pt}
            ref = holder(o).getPayloadRef(*pt)
            ref <<= src
            for p in [p for p in mdl if p[:n] == pt]:
                del mdl[p]
            for q, v in src_cont.items():
                mdl[pt + q] = v
                written.add(pt + q)
            handles[:] = [h for h in handles if h[0][:n] != pt]     # handles into the replaced sub-tree are gone
            rec.cls("assign-nonempty", bool(src_cont))
        elif k == "fiber_iadd":
            # in-place sum with a fiber at a (partial) point: the stored boxes are updated, so handles obtained
            # earlier keep aliasing them
            f, lvl, prefix = m.target_path(o["path"])
            if lvl < d - 1:
                continue
            g = m.leaf_fiber_from([[o["sel"][0], o["val"]], [o["sel"][1], o["val"] + 1], [o["sel"][2], 1]], lvl)
            gc = {c: Payload.get(p) for c, p in zip(g.coords, g.payloads)}
            f += g
            for c, v in gc.items():
                if v != default:
                    apply_write(mdl, prefix + (c,), 2, v, default)
                    written.add(prefix + (c,))
            nwrites += 1
            # (an element whose sum is the default is taken out of the fiber: handles to it are gone)
            for hpt, href, _ in handles:
                so = stored_obj(m.root, hpt)
                if so is not ABSENT and hpt[:len(prefix)] == prefix and so is not href:
                    raise Violation("ref-alias", f"step {step}: after f += g the payload stored at {hpt} is no longer the "
                                    f"handle obtained for it earlier")
            handles[:] = [h for h in handles if stored_obj(m.root, h[0]) is h[1]]
        elif k == "elem_assign":
            # assignment with a whole element on both sides (taken out of leaf fibers by position): the
            # destination point takes the source's VALUE; the two points stay independent afterwards
            # (checked by the content comparison after every later step)
            outcome, info = m.op_elem_assign(dict(o, other=[[o["sel"][2], o["val"]], [o["sel"][3], o["val"] + 1]]))
            if outcome != "ok":
                continue
            pt, v = info["point"], info["value"]
            if v == default:
                mdl.pop(pt, None)
            else:
                mdl[pt] = v
            written.add(pt)
            nwrites += 1
        elif k in ("position", "positionRef"):
            f, lvl = m.target(o["path"])
            c = o["sel"][0] % m.shape[lvl]
            if k == "position":
                before = frozen()
                pos = f.getPosition(c)
                want = f.coords.index(c) if c in f.coords else None
                # (the docstring says None for an EMPTY element; for a stored element that holds nothing the index
                # -- what the code answers -- and None are both defensible: the statement does not decide)
                held = f.payloads[want] if want is not None else None
                stored_empty = want is not None and (held.isEmpty() if isinstance(held, Fiber)
                                                     else Payload.get(held) == default)
                if pos != want and not (stored_empty and pos is None):
                    raise Violation("position", f"step {step}: getPosition({c}) = {pos}, coords {f.coords}")
                same(before, f"getPosition({c})")
            else:
                before_tree = observe.tree_of(f)
                pos = f.getPositionRef(c)
                if pos is None or pos >= len(f.coords) or f.coords[pos] != c:
                    raise Violation("positionRef", f"step {step}: getPositionRef({c}) = {pos}, coords {f.coords}")
                if [x for x in observe.tree_of(f) if x[0] != c] != [x for x in before_tree if x[0] != c]:
                    raise Violation("positionRef", f"step {step}: getPositionRef({c}) disturbed other elements")
        elif k == "onecoord":
            f, lvl = m.target(o["path"] + [0, 0, 0])
            if lvl < d - 1 or not f.coords:
                continue
            c = o["sel"][0] % m.shape[lvl]
            # (the accessors assert coords[start_pos] <= coord for a non-zero start_pos; 0 is always accepted)
            legal = sorted({0} | {p for p in range(len(f.coords)) if f.coords[p] <= c})
            sp = legal[o["sel"][1] % len(legal)]
            if o["sel"][2] % 2:
                sp = Payload(sp)            # documented: "scalar or Payload() containing a scalar"
                rec.cls("boxed-start-pos")
            which = o["mode"] % 4
            before = frozen()
            if which == 0:
                a = f.getPayload(c, start_pos=sp)
                b = f.getPayload(c)
                if Payload.get(a) != Payload.get(b) or (c in f.coords and a is not b):
                    raise Violation("start-pos", f"step {step}: getPayload({c}, start_pos={sp}) = {a!r} but {b!r} without")
                same(before, "getPayload with start_pos")
            elif which == 1:
                a = f.getPosition(c, start_pos=sp)
                b = f.getPosition(c)
                if a != b:
                    raise Violation("start-pos", f"step {step}: getPosition({c}, start_pos={sp}) = {a} but {b} without")
                same(before, "getPosition with start_pos")
            elif which == 3:
                a = f.getPositionRef(c, start_pos=sp)
                b = f.getPositionRef(c)
                if a != b or f.coords[a] != c:
                    raise Violation("start-pos", f"step {step}: getPositionRef({c}, start_pos={sp}) = {a} but {b} without")
                if f.coords != sorted(set(f.coords)):
                    raise Violation("start-pos", f"step {step}: getPositionRef with start_pos left coords {f.coords}")
            else:
                present = c in f.coords
                a = f.getPayloadRef(c, start_pos=sp)
                b = f.getPayloadRef(c)
                if a is not b:
                    raise Violation("start-pos", f"step {step}: getPayloadRef({c}, start_pos={sp}) is not the payload "
                                    f"a plain getPayloadRef({c}) returns afterwards")
                if f.coords != sorted(set(f.coords)):
                    raise Violation("start-pos", f"step {step}: getPayloadRef with start_pos left coords {f.coords}")
            rec.cls("start-pos")
        # the whole content equals the model after every step
        got = observe.content_of(m.root, d, default)
        if got != mdl:
            extra = {p: v for p, v in got.items() if mdl.get(p) != v}
            missing = {p: v for p, v in mdl.items() if p not in got}
            raise Violation("content", f"step {step} ({k}): content differs from the model: unexpected {extra}, "
                            f"missing {missing}")
        observe.wellformed(m.root, d, f"step {step}")
        if m.owned:
            observe.rank_consistency(m.t, f"step {step} ({k})")
        rec.cls(k)
    rec.cls("owned" if m.owned else "unowned")
    rec.cls(f"depth{d}")
    rec.cls("aliased-write", naliased > 0)
    rec.nontrivial(nwrites >= 3 and nfresh_reads >= 1 and naliased >= 1)


ABSENT = object()


def stored_obj(root, pt):
    f = root
    for c in pt:
        if not isinstance(f, Fiber) or c not in f.coords:
            return ABSENT
        f = f.payloads[f.coords.index(c)]
    return f


def stored_value(root, pt, d):
    o = stored_obj(root, pt)
    return o if o is ABSENT else Payload.get(o)


def with_path(tree, pt, default):
    """model: tree with the path to pt created (explicit default leaf / empty fibers on the way)"""
    out = [list(x) for x in tree]
    c = pt[0]
    for x in out:
        if x[0] == c:
            if len(pt) > 1:
                x[1] = with_path(x[1], pt[1:], default)
            return out
    new = default if len(pt) == 1 else with_path([], pt[1:], default)
    out.append([c, new])
    out.sort(key=lambda x: x[0])
    return out


# ---------------------------------------------------------------- long fibers, far shortcuts
@st.composite
def long_cases(draw):
    S = draw(st.sampled_from([24, 40]))
    default = draw(st.sampled_from([0, 0, 2]))
    cs = sorted(draw(st.sets(st.integers(0, S - 1), min_size=10, max_size=30)))
    ops_ = draw(st.lists(st.tuples(st.sampled_from(["getPayload", "getPosition", "getPayloadRef", "getPositionRef"]),
                                   st.integers(0, S - 1), st.sampled_from([8, 9, 8, 7, 10, 1, 0, 16, 3]),
                                   st.booleans(), gen.values(default)), min_size=1, max_size=12))
    return {"S": S, "default": default, "elems": [[c, draw(gen.values(default, p_default=0.1))] for c in cs],
            "ops": [list(o) for o in ops_], "owned": draw(st.booleans())}


def check_long(case, rec):
    """a one-level fiber with many elements: the accessors with a legal shortcut that lies several positions
    before the target answer like the accessors without one"""
    import bisect
    S, default = case["S"], case["default"]
    f = build.leaf_fiber([c for c, _ in case["elems"]], [v for _, v in case["elems"]], shape=S, default=default,
                         owned=case["owned"])
    mdl = {c: v for c, v in case["elems"] if v != default}
    for name, c, back, boxed, v in case["ops"]:
        idx = bisect.bisect_left(f.coords, c)                    # position of c, or where it would go
        legal_max = idx if idx < len(f.coords) and f.coords[idx] == c else idx - 1
        sp = max(0, min(legal_max, idx - back))
        if f.coords and sp > 0 and f.coords[sp] > c:
            sp = 0
        if not f.coords:
            sp = 0
        arg = Payload(sp) if boxed else sp
        if name == "getPayload":
            got = f.getPayload(c, start_pos=arg)
            if Payload.get(got) != mdl.get(c, default):
                raise Violation("start-pos", f"getPayload({c}, start_pos={sp}) = {got!r}, model says {mdl.get(c, default)}; "
                                f"coords {f.coords}")
        elif name == "getPosition":
            got = f.getPosition(c, start_pos=arg)
            want = f.coords.index(c) if c in f.coords else None
            if got != want and not (want is not None and got is None and Payload.get(f.payloads[want]) == default):
                raise Violation("start-pos", f"getPosition({c}, start_pos={sp}) = {got}, expected {want}; coords {f.coords}")
        elif name == "getPayloadRef":
            ref = f.getPayloadRef(c, start_pos=arg)
            if c not in f.coords or f.payloads[f.coords.index(c)] is not ref or Payload.get(ref) != mdl.get(c, default):
                raise Violation("start-pos", f"getPayloadRef({c}, start_pos={sp}) is not the payload stored at {c} "
                                f"({ref!r}); coords {f.coords}")
            ref <<= v
            if v == default:
                mdl.pop(c, None)
            else:
                mdl[c] = v
        else:
            pos = f.getPositionRef(c, start_pos=arg)
            if pos is None or pos >= len(f.coords) or f.coords[pos] != c:
                raise Violation("start-pos", f"getPositionRef({c}, start_pos={sp}) = {pos}; coords {f.coords}")
        observe.wellformed(f, 1, f"after {name}({c}, start_pos={sp})")
        got = observe.content_of(f, 1, default)
        if got != {(k,): x for k, x in mdl.items()}:
            raise Violation("content", f"after {name}({c}, start_pos={sp}) the fiber holds {got}, model {mdl}")
        rec.cls(name)
        rec.cls("shortcut-8-or-more-positions-before", idx - sp >= 8)
    rec.nontrivial(len(case["ops"]) >= 4)


# ---------------------------------------------------------------- rank-0 tensors
@st.composite
def rank0_cases(draw):
    return {"init": draw(gen.values(0, floats=True)),
            "ops": draw(st.lists(st.tuples(st.sampled_from(["read", "ref", "assign", "add", "mul"]),
                                           gen.values(0)), min_size=1, max_size=8))}


def check_rank0(case, rec):
    t = Tensor.fromUncompressed(root=case["init"]) if case["init"] != 0 else Tensor(rank_ids=[])
    val = case["init"]
    for k, v in case["ops"]:
        if k == "read":
            got = t.getPayload()
        else:
            got = t.getPayloadRef()
            if got is not t.getRoot():
                raise Violation("rank0-alias", "rank-0 getPayloadRef() is not the root payload")
            if k == "assign":
                got <<= v
                val = v
            elif k == "add":
                got += v
                val = val + v
            elif k == "mul":
                got *= v
                val = val * v
        if Payload.get(t.getPayload()) != val:
            raise Violation("rank0-value", f"rank-0 tensor holds {t.getPayload()!r}, model says {val}")
    rec.cls("rank0")
    rec.nontrivial(len(case["ops"]) >= 3)


PARTS = [Part("access", cases(), check, n_quick=4000, n_thorough=25000),
         Part("rank0", rank0_cases(), check_rank0, n_quick=100, n_thorough=300),
         Part("long-shortcuts", long_cases(), check_long, n_quick=500, n_thorough=4000)]
