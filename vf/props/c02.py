"""C02 -- a tensor's rank bookkeeping always mirrors its fibertree."""

import collections
import copy
import io
import os
import contextlib
import random

from hypothesis import strategies as st

from fibertree import Fiber, Payload, Tensor
from fibertree.model import Format

from .. import build, gen, model, observe, machine
from ..core import Part, Violation

ID = "C02"
RULE = ("A tensor from every constructor (empty + insertion, fromFiber, fromUncompressed, fromRandom, fromYAMLfile, "
        "makePopulated, deepcopy) followed by a generated history of 1-20 steps mixing (a) mutators listed by the "
        "property: reference insertion at any depth (Tensor- and Fiber-level), populate loops with generated body plans, "
        "dense reference iteration, fiber assignment from owned / unowned sources, clear; (b) transforms that REPLACE "
        "the tensor under test by their result: deepcopy, the four splits at any depth, swizzleRanks, swapRanks, "
        "flatten -> unflatten, mergeRanks, Tensor.updateCoords / updatePayloads, dump -> fromYAMLfile; (c) read-only "
        "operations that were seen to disturb rank lists: ==, | iteration, uncompress, printing, Format.getRank. "
        "Oracle after EVERY step (on the result and on the operand of a transform): rank i lists exactly the fibers a "
        "raw walk finds at depth i (multiset of ids), each reports rank i as owner, ranks are chained, the root is the "
        "single fiber of rank 0; Format(...).getRank(r) equals the sum over the live fibers; clearStats resets exactly "
        "the live fibers. Non-trivial: a populate that removed a just-created sub-fiber, or an insertion that created "
        "a chain of >=2 fibers, or a transform result mutated afterwards. Distinct = SHA-1 of the case.")
ASSUMPTIONS = ["sub-fibers are never attached by hand (append / __setitem__ of a Fiber) -- not a tensor-level operation",
               "Tensor.updatePayloads is used with leaf->leaf functions",
               "histories continue on a transform result only while it keeps integer coordinates"]

MUT = ["ref", "ref", "ref", "populate", "populate", "denseref", "assign", "clear", "positionRef", "fiber_arith", "insert"]
TRANS = ["setRoot", "fromFiber_owned", "deepcopy", "splitUniform", "splitEqual", "splitNonUniform", "splitUnEqual", "swizzle", "swap",
         "flatten_unflatten", "merge", "t_updateCoords", "t_updatePayloads", "yaml"]
READ = ["eq", "union", "uncompress", "print", "format"]


@st.composite
def step(draw, default):
    kind = draw(st.sampled_from(["mut"] * 5 + ["trans"] * 3 + ["read"] * 2))
    if kind == "mut":
        return draw(machine.op(kinds=MUT, default=default))
    k = draw(st.sampled_from(TRANS if kind == "trans" else READ))
    o = {"op": k, "sel": draw(st.lists(st.integers(0, 9), min_size=4, max_size=4)),
         "mode": draw(st.integers(0, 11)), "val": draw(gen.nondefault_values(default)),
         "perm": draw(st.permutations([0, 1, 2, 3]))}
    if k in ("eq", "union", "setRoot"):
        o["src"] = draw(gen.trees([6, 6, 6], default, max_elems=3))
    return o


@st.composite
def cases(draw):
    spec = draw(gen.tree_specs(min_depth=1, max_depth=3, max_shape=5, defaults=(0, 0, 0, 2), auth="any"))
    init = draw(st.sampled_from(["ref", "fiber", "uncompressed", "yaml", "deepcopy", "random", "populated"]))
    return {"spec": spec, "init": init, "seed": draw(st.integers(0, 1000)),
            "ops": draw(st.lists(step(spec["default"]), min_size=1, max_size=20))}


def initial(case):
    spec = case["spec"]
    if case["init"] == "random":
        st_ = random.getstate()
        try:
            t = Tensor.fromRandom(rank_ids=list(spec["rank_ids"]), shape=list(spec["shape"]),
                                  # (non-unit density for upper ranks "does not make sense" with a non-zero default)
                                  density=([0.7] * len(spec["shape"]) if spec["default"] == 0
                                           else [1.0] * (len(spec["shape"]) - 1) + [0.7]),
                                  interval=5, seed=case["seed"],
                                  default=spec["default"])
        finally:
            random.setstate(st_)
        t.setMutable(True)
        return machine_from_tensor(spec, t)
    if case["init"] == "populated":
        t = Tensor.makePopulated(list(spec["rank_ids"]), list(spec["shape"]), initial=1 + case["seed"] % 3,
                                 default=spec["default"])
        return machine_from_tensor(spec, t)
    return machine.Machine(spec, case["init"])


def machine_from_tensor(spec, t):
    m = machine.Machine.__new__(machine.Machine)
    m.spec = dict(spec)
    m.d = len(t.ranks)
    m.shape = list(spec["shape"])
    m.default = spec["default"]
    m.t = t
    m.root = t.getRoot()
    m.log = []
    return m


def retarget(m, t, rank_ids, shape):
    m.t, m.root = t, t.getRoot()
    m.d = len(t.ranks)
    m.shape = list(shape)
    m.spec = dict(m.spec, rank_ids=list(rank_ids), shape=list(shape))


def int_coords(t):
    return all(isinstance(c, int) for r in t.ranks for f in r.getFibers() for c in f.coords)


def verify(t, where):
    observe.wellformed(t.getRoot(), len(t.ranks), where)
    observe.rank_consistency(t, where)


def derived(t, where):
    """per-rank quantities derived from the rank lists describe the live tree"""
    ids = t.getRankIds()
    if any(not isinstance(i, str) for i in ids):
        return
    levels = observe.walk_levels(t.getRoot(), len(t.ranks))
    spec = {r: {"format": "C", "rhbits": 0, "fhbits": 1000, "cbits": 1, "pbits": 0} for r in ids}
    fmt = Format(t, spec)
    for i, r in enumerate(ids):
        want = sum(1000 + len(f.coords) for f in levels[i])
        got = fmt.getRank(r)
        if got != want:
            raise Violation("derived-footprint", f"{where}: Format.getRank({r}) = {got}, the live tree gives {want}")
    for lv in levels:
        for f in lv:
            f._saved_count, f._saved_dist = 3, 7
    t.clearStats()
    for lv in levels:
        for f in lv:
            if f.getSavedPosStats(clear=False) != (0, 0):
                raise Violation("derived-clearStats", f"{where}: clearStats() left a live fiber's statistics uncleared")


def do_transform(m, o, rec):
    """returns (result tensor or None, new rank ids, new shape) -- None = history continues on the operand"""
    t = m.t
    k = o["op"]
    d = m.d
    depth = o["sel"][0] % d
    ids, shape = list(m.spec["rank_ids"]), list(m.shape)
    has_elems = len(t.getRoot().coords) > 0
    if k == "setRoot":
        # the tensor gets a new root (an unowned tree, or the root of another tensor): every rank must forget
        # the fibers of the old tree
        if getattr(m, "existing_only", False) or not int_coords(t) or any(not isinstance(i, str) for i in ids):
            return None, ids, shape
        tree = machine.cut_tree(o["src"], shape, d)
        spec = {"rank_ids": ids, "shape": shape, "default": m.default, "tree": tree}
        if o["mode"] % 2:
            new_root = build.build_tensor(spec, "ref").getRoot()
        else:
            new_root = build.build_fiber(spec)
        t.setRoot(new_root)
        m.root = t.getRoot()
        rec.cls("setRoot-on-populated", has_elems)
        return None, ids, shape
    if k == "fromFiber_owned":
        # another tensor built from the root of this one gets a copy; this one must stay as it is
        r = Tensor.fromFiber(list(ids), t.getRoot(), shape=list(shape), default=m.default)
        r.setMutable(True)
        return r, ids, shape
    if k == "deepcopy":
        return copy.deepcopy(t), ids, shape
    if k == "yaml":
        if m.default != 0 or not int_coords(t):
            return None, ids, shape
        path = os.path.join(build.tmpdir(), f"c02-{os.getpid()}.yaml")
        t.dump(path)
        try:
            r = Tensor.fromYAMLfile(path)
        finally:
            os.remove(path)
        r.setMutable(True)
        return r, ids, shape
    if k.startswith("split"):
        if d >= 4:
            return None, ids, shape
        S = shape[depth]
        if k == "splitUniform":
            r = t.splitUniform(1 + o["sel"][1] % (S + 1), depth=depth)
        elif k == "splitEqual":
            r = t.splitEqual(1 + o["sel"][1] % 3, depth=depth)
        elif k == "splitNonUniform":
            b = sorted({0, o["sel"][1] % (S + 1), o["sel"][2] % (S + 1)})
            r = t.splitNonUniform(b, depth=depth)
        else:
            r = t.splitUnEqual([1 + o["sel"][1] % 2, 1 + o["sel"][2] % 3], depth=depth)
        nid = ids[:depth] + [ids[depth] + ".1", ids[depth] + ".0"] + ids[depth + 1:]
        nshape = shape[:depth] + [S, S] + shape[depth + 1:]
        return r, nid, nshape
    if k == "swizzle":
        if d == 1:
            return None, ids, shape
        perm = [p for p in o["perm"] if p < d]
        r = t.swizzleRanks([ids[p] for p in perm])
        return r, [ids[p] for p in perm], [shape[p] for p in perm]
    if k == "swap":
        if d == 1:
            return None, ids, shape
        dd = o["sel"][0] % (d - 1)
        r = t.swapRanks(depth=dd)
        nid = list(ids)
        nid[dd], nid[dd + 1] = nid[dd + 1], nid[dd]
        ns = list(shape)
        ns[dd], ns[dd + 1] = ns[dd + 1], ns[dd]
        return r, nid, ns
    if k == "flatten_unflatten":
        if d == 1:
            return None, ids, shape
        dd = o["sel"][0] % (d - 1)
        levels = 1 + o["sel"][1] % (d - 1 - dd)
        fl = t.flattenRanks(depth=dd, levels=levels, coord_style="tuple" if o["mode"] % 2 else "pair")
        verify(fl, f"flattenRanks(depth={dd}, levels={levels})")
        derived(fl, "flattenRanks result")
        verify(t, "operand after flattenRanks")
        r = fl.unflattenRanks(depth=dd, levels=levels)
        verify(fl, "operand after unflattenRanks")
        if m.default != 0:
            # (unflattenRanks loses a non-zero leaf default -- C14's subject); stay on the operand
            verify(r, "unflattenRanks result")
            return None, ids, shape
        return r, ids, shape
    if k == "merge":
        if d == 1:
            return None, ids, shape
        dd = o["sel"][0] % (d - 1)
        r = t.mergeRanks(depth=dd, levels=1, coord_style="absolute" if o["mode"] % 2 else "relative")
        verify(r, f"mergeRanks(depth={dd})")
        derived(r, "mergeRanks result")
        return None, ids, shape          # rank ids become lists: continue on the operand
    if k == "t_updateCoords":
        S = shape[depth]
        # (a rank without a declared shape needs new_shape: the docstring's precondition)
        kw = {} if t.getShape(authoritative=True) is not None else {"new_shape": S}
        r = t.updateCoords(lambda i, c, p: S - 1 - c, depth=depth, **kw)
        verify(r, "Tensor.updateCoords result")
        return None, ids, shape          # (Fiber.updateCoords at depth>0 handles only the first sub-fiber)
    if k == "t_updatePayloads":
        v = o["val"]
        r = t.updatePayloads(lambda i, c, p: p + v, depth=d - 1)
        return r, ids, shape
    raise ValueError(k)


def do_read(m, o):
    t = m.t
    k = o["op"]
    def partner():
        # an independent tensor of the same ranks, or a (possibly edited) copy
        if o["mode"] % 3 == 0 and int_coords(t):
            tree = machine.cut_tree(o["src"], m.shape, m.d)
            return build.build_tensor({"rank_ids": m.spec["rank_ids"], "shape": m.shape, "default": m.default,
                                       "tree": tree}, "ref")
        other = copy.deepcopy(t)
        if o["mode"] % 3 == 1:
            pt = m.point(o["sel"], m.d)
            if pt is not None:
                ref = other.getPayloadRef(*pt)
                ref += o["val"]
        return other
    if k == "eq":
        other = partner()
        _ = (t == other)
        _ = (t.getRoot() == other.getRoot())
        verify(other, "right operand of ==")
    elif k == "union":
        other = partner()
        if o["mode"] % 4 == 3:
            other.getRoot().clear()
        for _ in t.getRoot() | other.getRoot():
            pass
        for _ in t.getRoot() ^ other.getRoot():
            pass
        verify(other, "right operand of |")
    elif k == "uncompress":
        if all(isinstance(i, str) for i in t.getRankIds()) and int_coords(t):
            t.getRoot().uncompress()
    elif k == "print":
        with contextlib.redirect_stdout(io.StringIO()):
            t.print()
            repr(t)
            texts = [(str(r), repr(r)) for r in t.ranks]
        # rank printing describes the live tree and nothing else: whatever the format, a tensor rebuilt from
        # the same tree prints every rank with the same characters (the order of the fibers in a rank is
        # not prescribed, so the texts are compared as multisets of characters)
        # ... and shows every live fiber of the rank (white space aside, whatever the layout)
        levels = observe.walk_levels(t.getRoot(), len(t.ranks))
        for r, lv, (text, rtext) in zip(t.ranks, levels, texts):
            squeezed = "".join(text.split())
            need = collections.Counter("".join(f.__str__(cutoff=1000).split()) for f in lv)
            for ftext, n in need.items():
                if squeezed.count(ftext) < n:
                    raise Violation("derived-print", f"rank {r.getId()} prints as {text!r}: the text of {n} live "
                                    f"fiber(s) {ftext!r} occurs {squeezed.count(ftext)} time(s)")
            need = collections.Counter(repr(f) for f in lv)
            for ftext, n in need.items():
                if rtext.count(ftext) < n:
                    raise Violation("derived-print", f"rank {r.getId()} has repr {rtext!r}: the repr of {n} live "
                                    f"fiber(s) {ftext!r} occurs {rtext.count(ftext)} time(s)")
        if all(isinstance(i, str) for i in t.getRankIds()) and int_coords(t):
            fresh = Tensor.fromFiber(list(t.getRankIds()), t.getRoot(), shape=list(m.shape), default=m.default)
            verify(fresh, "tensor rebuilt from the root (for the printing comparison)")
            if observe.tree_of(fresh.getRoot()) == observe.tree_of(t.getRoot()):
                with contextlib.redirect_stdout(io.StringIO()):
                    want = [(str(r), repr(r)) for r in fresh.ranks]
                for r, got, exp in zip(t.ranks, texts, want):
                    if collections.Counter(got[0]) != collections.Counter(exp[0]) or \
                            collections.Counter(got[1]) != collections.Counter(exp[1]):
                        raise Violation("derived-print", f"rank {r.getId()} prints as {got[0]!r} / {got[1]!r}; a tensor "
                                        f"rebuilt from the same tree prints {exp[0]!r} / {exp[1]!r}")
    elif k == "format":
        derived(t, "Format query")


def check(case, rec):
    m = initial(case)
    verify(m.t, f"initial tensor ({case['init']})")
    derived(m.t, "initial tensor")
    transformed_at = None
    nt = False
    for i, o in enumerate(case["ops"]):
        k = o["op"]
        where = f"after step {i} ({k})"
        if k in TRANS:
            before = observe.snap(m.root)
            r, nid, nshape = do_transform(m, o, rec)
            verify(m.t, f"operand {where}")
            if r is not None:
                verify(r, f"result {where}")
                derived(r, f"result {where}")
                # (swapRanks reports an estimated shape -- C14's subject; histories continue on results
                # that still know their shape)
                # (... and only where that shape is the one the history draws its coordinates from: a transform
                # of a tensor WITHOUT declared shape may hand on the estimate as the declared shape of its result,
                # and writing beyond a declared shape is the caller's error)
                if int_coords(r) and all(isinstance(x, str) for x in r.getRankIds()) \
                        and r.getShape(authoritative=True) == list(nshape):
                    retarget(m, r, nid, nshape)
                    if k.startswith("split"):
                        # inserting new coordinates into a split result would have to respect the partition
                        # intervals: from here on the history only writes at existing points (and clears)
                        m.existing_only = True
                    transformed_at = i
            rec.cls("transform:" + k)
        elif k in READ:
            do_read(m, o)
            verify(m.t, where)
            rec.cls("read:" + k)
        else:
            nf_before = [len(r.getFibers()) for r in m.t.ranks]
            outcome, info = m.step(o)
            verify(m.t, f"{where} -> {outcome} {info}")
            nf_after = [len(r.getFibers()) for r in m.t.ranks]
            if k == "ref" and sum(nf_after) - sum(nf_before) >= 2:
                rec.cls("chain-insert")
                nt = True
            if k == "populate" and isinstance(info, dict) and info.get("offered", 0) > info.get("written", 0) and m.d > 1:
                rec.cls("populate-removal")
                nt = True
            if transformed_at is not None and outcome == "ok":
                rec.cls("mutated-transform-result")
                nt = True
            rec.cls(k)
        if i % 4 == 3:
            derived(m.t, where)
    derived(m.t, "final tensor")
    rec.cls("init:" + case["init"])
    rec.nontrivial(nt)


PARTS = [Part("history", cases(), check, n_quick=3000, n_thorough=15000)]


def coverage_warnings(rec):
    n = max(1, rec.evaluations)
    out = []
    for k, floor in (("history:populate-removal", 0.025), ("history:chain-insert", 0.035), ("history:mutated-transform-result", 0.15)):
        if rec.classes.get(k, 0) / n < floor:
            out.append(f"{k} only {rec.classes.get(k, 0)}/{n}")
    return out


def _pin_p7b():
    t = Tensor(rank_ids=["M", "K"], shape=[2, 2])
    t.getPayloadRef(0, 0).__ilshift__(1)
    t.getRoot().clear()
    n = len(t.ranks[1].getFibers())
    return f"root.clear() left {n} stale fiber(s) in rank K" if n else None


def _pin_p2():
    t = Tensor(rank_ids=["M", "K"], shape=[3, 4])
    t.getPayloadRef(0)                      # empty sub-fiber first
    t.getPayloadRef(1, 2).__ilshift__(5)
    s = t.splitUniform(2, depth=1)
    try:
        verify(s, "split result")
    except Violation as v:
        return f"splitUniform(2, depth=1) of M[0->K[], 1->K[2->5]] gives a corrupt tensor: {v.msg}"
    got = observe.tensor_content(s)
    return None if got == {(1, 2, 2): 5} else f"split result holds {got}"


def _pin_p15():
    t = Tensor(rank_ids=["M", "K", "N"], shape=[2, 1, 1])
    t.getPayloadRef(0)
    t.getPayloadRef(1, 0, 0).__ilshift__(3)
    try:
        f = t.flattenRanks(depth=0, levels=2, coord_style="pair")
    except TypeError as e:
        return f"flattenRanks(levels=2) next to an empty sub-fiber raises TypeError: {e}"
    return None


PINNED = {"P7b-clear-assign-stale-subfibers": _pin_p7b,
          "P2-updatePayloads-position-drift": _pin_p2,
          "P15-multilevel-flatten-empty-subfiber": _pin_p15}
