"""C20 -- encoding a tensor in a compression format loses nothing.

Everything the oracle knows about the formats comes from the format
descriptions in ``fibertree/codec/compression_types.py`` and the property
statement:

* ``U``  size of vector = shape of the fiber; contents 0 if nothing in the
         position, the payload otherwise; no coordinates stored;
* ``C``  size of vector = occupancy of the fiber; sorted, de-duplicated
         coordinates; one payload per coordinate;
* ``B``  (untruncated) size of vector = shape of the fiber; 1 in a position if
         occupied; one payload per set bit;
* fibers of one rank are serialised one after the other in depth-first order;
* a rank above a ``C``/``B`` rank stores, per element, the occupancy of the
  children *accumulated inside the parent fiber* (segment ends); a rank above
  ``U`` stores nothing per element (position arithmetic); ``payloads_root``
  holds the occupancy of the root fiber when rank 0 is ``C``/``B``.
"""

import contextlib
import io
import itertools
import math
import sys

from hypothesis import strategies as st

from fibertree import Codec, Tensor

from .. import findings, model
from ..core import Part, Violation

ID = "C20"

F_SHAPE = "P13a-bitvector-drops-imposed-shape"
F_SIZE = "P13b-getsize-nonleaf-counts-child-handles"
F_ASSERT = "P13c-coordlist-getsize-empty-nonleaf-asserts"

RULE = ("Tensors of depth 1-3 are built with Tensor.fromUncompressed from a generated dense nest (shape 1-6 per "
        "rank, 1-D up to 70, any density incl. all-zero, zeroed rows/slabs = empty fibers); two thirds of the cases are "
        "then made non-canonical through getPayloadRef (explicit 0 leaves, explicitly empty sub-fibers, sub-fibers "
        "holding only explicit zeros) without changing the content. Every case encodes the "
        "tensor under ALL 3^depth descriptors over {U,C,B}, each without shape= and with an imposed shape "
        "(natural + grow, grow >= 0, sometimes > 32 so that bit masks span several words). Oracle: (1) a decoder "
        "written from the format descriptions only (implicit positions, explicit coordinates, bit masks, "
        "per-parent cumulative occupancies as segment ends, fibers of a rank in DFS order, payloads_root) must "
        "consume every per-rank array completely and reproduce exactly the nest's non-zero content; (2) every "
        "encoded fiber object scanned with setupSlice/nextInSlice/handleToCoord/handleToPayload/payloadToValue "
        "and a stub cache yields the decoded fiber's elements (also from every start coordinate); non-leaf "
        "payload handles index the child fiber objects in DFS order; an interleaved walk of the whole encoded "
        "tensor (each child scanned while its parent's scan is still in progress) yields exactly the content; (3) CoordinateList.coordToHandle(q) for "
        "every q in [-1, shape] is the index of the first stored coordinate >= q, None past the end; "
        "(4) getSize() equals the number of words the decoder consumed for that fiber (mask words = "
        "ceil(bits/32)). Non-trivial: depth >= 2 and at least one empty fiber is encoded (all descriptors, hence "
        "all mixed ones, are run for every case). Distinct = SHA-1 of the generated case.")
ASSUMPTIONS = [
    "tensors are fromUncompressed trees with default 0 and int / dyadic-float leaves, optionally with explicit "
    "zeros / empty sub-fibers inserted through getPayloadRef (explicit zeros are not content)",
    "the codec is called the way codec/swoop_util.py:encodeSwoopTensorInFormat calls it: Codec(tuple(desc), "
    "[True]*n), get_output_dict(rank_ids), encode(-1, root, rank_ids, output, output_tensor, shape=...)",
    "an imposed shape is >= the natural shape in every rank (asserted by Codec.encode)",
    "non-leaf elements are compared by coordinate and by the child fiber object the payload handle selects in "
    "getPayloads(); payloadToFiberHandle and the cache/statistics counters are outside the statement",
    "rank ids are distinct after lower-casing (they become the keys of the output dict)",
]

FMTS = "UCB"
BITS_PER_WORD = 32


# ---------------------------------------------------------------------------
# stub cache (what swoop_util installs is a boltons LRU; the formats only need
# get / item assignment / miss_count / hit_count)

class StubCache(dict):
    def __init__(self):
        super().__init__()
        self.miss_count = 0
        self.hit_count = 0

    def get(self, key, default=None):
        if key in self:
            self.hit_count += 1
        else:
            self.miss_count += 1
        return super().get(key, default)

    def __repr__(self):           # the formats print the cache: keep that cheap
        return "<stub cache>"

    __str__ = __repr__


# ---------------------------------------------------------------------------
# case <-> nest

def nest_of(dims, flat):
    """dense nest of lists from row-major leaf values."""
    def rec(level, off):
        if level == len(dims) - 1:
            return list(flat[off:off + dims[level]])
        stride = 1
        for x in dims[level + 1:]:
            stride *= x
        return [rec(level + 1, off + i * stride) for i in range(dims[level])]
    return rec(0, 0)


def content_of(dims, flat):
    out = {}
    for p, v in zip(itertools.product(*[range(n) for n in dims]), flat):
        if v != 0:
            out[p] = v
    return out


def has_empty_fiber(dims, cont):
    """some fiber at rank >= 1 (child of a position of its parent) has no
    element, or the root has none: under a U parent it is encoded empty."""
    if not cont:
        return True
    for lvl in range(1, len(dims)):
        seen = {p[:lvl] for p in cont}
        total = 1
        for n in dims[:lvl]:
            total *= n
        if len(seen) < total:
            return True
    return False


# ---------------------------------------------------------------------------
# the library call (as in codec/swoop_util.py)

def touch_tensor(t, touch):
    """make the tensor non-canonical through the public API: a full-length
    point stores an explicit 0 leaf (getPayloadRef without a write, or writing
    0), a shorter prefix stores an explicitly empty sub-fiber.  Content is
    unchanged."""
    for tc in touch:
        ref = t.getPayloadRef(*tc["p"])
        if tc.get("w") and len(tc["p"]) == len(t.getRankIds()):
            ref <<= 0


def encode(rank_ids, nest, desc, shape, touch=(), cont=None):
    if cont is not None:
        # a tensor created without a shape and filled point by point: every rank estimates its shape
        t = Tensor(rank_ids=list(rank_ids))
        for p, v in sorted(cont.items()):
            ref = t.getPayloadRef(*p)
            ref <<= v
    else:
        t = Tensor.fromUncompressed(list(rank_ids), nest)
    touch_tensor(t, touch)
    codec = Codec(tuple(desc), [True] * len(desc))
    output = codec.get_output_dict(list(rank_ids))
    output_tensor = [list() for _ in range(len(desc) + 1)]
    codec.encode(-1, t.getRoot(), t.getRankIds(), output, output_tensor,
                 shape=None if shape is None else list(shape))
    return t, output, output_tensor


# ---------------------------------------------------------------------------
# the layout-only decoder

class DecodeError(Exception):
    pass


class Decoder:
    """Reads the per-rank arrays of the output dict front to back."""

    def __init__(self, output, rank_ids, desc, dims):
        self.desc = desc
        self.dims = dims
        self.d = len(desc)
        self.coords = [output["coords_" + r.lower()] for r in rank_ids]
        self.payloads = [output["payloads_" + r.lower()] for r in rank_ids]
        self.root = output["payloads_root"]
        self.expected_keys = sorted(["payloads_root"] + ["coords_" + r.lower() for r in rank_ids]
                                    + ["payloads_" + r.lower() for r in rank_ids])
        self.keys = sorted(output.keys())
        self.cpos = [0] * self.d
        self.ppos = [0] * self.d
        self.elems = [0] * self.d      # elements decoded so far per rank (segment arithmetic)
        self.fibers = [[] for _ in range(self.d)]
        self.content = {}

    def _take(self, arr, pos, r, n, what):
        if n < 0 or pos[r] + n > len(arr[r]):
            raise DecodeError(f"rank {r}: need {n} {what} at offset {pos[r]}, array has {len(arr[r])}")
        out = arr[r][pos[r]:pos[r] + n]
        pos[r] += n
        return out

    def run(self):
        if self.keys != self.expected_keys:
            raise DecodeError(f"output dict keys {self.keys}, expected {self.expected_keys}")
        if self.desc[0] in "CB":
            if len(self.root) != 1 or type(self.root[0]) is not int:
                raise DecodeError(f"payloads_root {self.root}: expected one occupancy for a {self.desc[0]} root")
            occ = self.root[0]
        else:
            if self.root:
                raise DecodeError(f"payloads_root {self.root}: expected empty above a U root")
            occ = None
        self.fiber(0, occ, ())
        for r in range(self.d):
            if self.cpos[r] != len(self.coords[r]):
                raise DecodeError(f"rank {r}: {len(self.coords[r]) - self.cpos[r]} coordinate words left over")
            if self.ppos[r] != len(self.payloads[r]):
                raise DecodeError(f"rank {r}: {len(self.payloads[r]) - self.ppos[r]} payload words left over")
        return self

    def fiber(self, r, occ, prefix):
        fmt = self.desc[r]
        n = self.dims[r]
        leaf = r == self.d - 1
        if fmt == "U":
            coords = list(range(n))
            cw = 0
        elif fmt == "C":
            coords = self._take(self.coords, self.cpos, r, occ, "coordinates")
            cw = len(coords)
            for i, c in enumerate(coords):
                if type(c) is not int or not 0 <= c < n or (i and coords[i - 1] >= c):
                    raise DecodeError(f"rank {r} fiber {prefix}: coordinates {coords} not sorted/unique in [0,{n})")
        else:
            bits = self._take(self.coords, self.cpos, r, n, "mask bits")
            if any(type(b) is not int or b not in (0, 1) for b in bits):
                raise DecodeError(f"rank {r} fiber {prefix}: mask {bits} is not 0/1")
            coords = [i for i, b in enumerate(bits) if b]
            if len(coords) != occ:
                raise DecodeError(f"rank {r} fiber {prefix}: mask {bits} has {len(coords)} bits set, "
                                  f"the rank above announced {occ}")
            cw = math.ceil(n / BITS_PER_WORD)
        k = len(coords)
        if fmt != "U":
            self.elems[r] += k
        rec = {"rank": r, "fmt": fmt, "prefix": prefix, "coords": coords, "cw": cw, "leaf": leaf,
               "values": None, "nchildren": 0}
        self.fibers[r].append(rec)
        if leaf:
            vals = self._take(self.payloads, self.ppos, r, k, "payloads")
            rec["pw"] = k
            rec["values"] = vals
            for c, v in zip(coords, vals):
                if fmt == "U" and type(v) is int and v == 0:
                    continue                      # "0 if nothing in position"
                self.content[prefix + (c,)] = v
            return
        rec["nchildren"] = k
        if self.desc[r + 1] in "CB":
            cum = self._take(self.payloads, self.ppos, r, k, "occupancies")
            rec["pw"] = k
            base = self.elems[r + 1]
            prev = 0
            for c, e in zip(coords, cum):
                if type(e) is not int or e < prev:
                    raise DecodeError(f"rank {r} fiber {prefix}: occupancies {cum} are not cumulative segment ends")
                if self.elems[r + 1] != base + prev:
                    raise DecodeError(f"rank {r} fiber {prefix}: child at {c} does not start at its segment")
                self.fiber(r + 1, e - prev, prefix + (c,))
                prev = e
        else:
            rec["pw"] = 0
            for c in coords:
                self.fiber(r + 1, None, prefix + (c,))


def decode(output, rank_ids, desc, dims):
    return Decoder(output, rank_ids, desc, dims).run()


# ---------------------------------------------------------------------------
# known-finding signatures

def shape_dropped_dims(desc, natural, imposed):
    """P13a: Bitvector.encodeFiber calls codec.encode(...) for its children
    without shape=, so every rank below the first non-leaf B is laid out with
    the natural length.  Returns the dims that deviation produces, or None if
    the (descriptor, shape) pair cannot show it."""
    if imposed is None:
        return None
    d = len(desc)
    r0 = next((r for r in range(d - 1) if desc[r] == "B"), None)
    if r0 is None:
        return None
    eff = [imposed[r] if r <= r0 else natural[r] for r in range(d)]
    if all(eff[r] == imposed[r] or desc[r] == "C" for r in range(d)):
        return None            # C stores no length-dependent words
    return eff


# ---------------------------------------------------------------------------
# handle-interface scan

def scan(f, fmt, base, leaf, where):
    """[(coord, payload handle, value | None)] from start coordinate ``base``."""
    out = []
    f.setupSlice(base)
    limit = len(f.getPayloads()) + len(f.coords) + 4
    handles = []
    while True:
        h = f.nextInSlice()
        if h is None:
            break
        handles.append(h)
        c = f.handleToCoord(h)
        p = f.handleToPayload(h)
        v = f.payloadToValue(p) if leaf else None
        out.append((c, p, v))
        if len(out) > limit:
            raise Violation("scan", f"{where}: nextInSlice does not terminate ({len(out)} handles from base {base})")
    # a handle stays good after the scan has moved on: converting the collected handles afterwards gives the same
    # elements as converting each one at once
    later = [(f.handleToCoord(h), f.handleToPayload(h)) for h in handles]
    if later != [(c, p) for c, p, _ in out]:
        raise Violation("scan", f"{where}: the handles of a scan from {base}, converted after the scan, give {later}; "
                        f"converted one by one they gave {[(c, p) for c, p, _ in out]}")
    return out


def same(a, b):
    return type(a) is type(b) and a == b


# A mutated search / scan loop may not terminate.  While one fiber is examined
# the executed lines of the codec methods that contain a loop are counted and
# bounded: deterministic (no clock) and far above what a correct scan of these
# small fibers needs (largest count seen on the pinned tree: < 8 000).

class StepBudgetExceeded(Exception):
    pass


STEP_BUDGET = 400000
NESTED_BUDGET = 2000000
_MON = getattr(sys, "monitoring", None)
_TOOL = 4
_count = [0, 0]          # [lines executed for the current fiber, budget (0 = not counting)]


def _looping_codes():
    import dis
    from fibertree.codec.formats.bitvector import Bitvector
    from fibertree.codec.formats.compression_format import CompressionFormat
    from fibertree.codec.formats.coord_list import CoordinateList
    from fibertree.codec.formats.uncompressed import Uncompressed
    seen, out = set(), []
    for cls in (CompressionFormat, Uncompressed, CoordinateList, Bitvector):
        for name in sorted(vars(cls)):
            fn = vars(cls)[name]
            fn = getattr(fn, "__func__", fn)
            code = getattr(fn, "__code__", None)
            if code is None or code in seen or name.startswith("encode") or name == "insertElement":
                continue          # not called while a fiber is examined
            seen.add(code)
            if any(i.opname in ("JUMP_BACKWARD", "JUMP_BACKWARD_NO_INTERRUPT", "FOR_ITER", "JUMP_ABSOLUTE")
                   for i in dis.get_instructions(code)):
                out.append(code)
    return out


_LOOPING = _looping_codes()


def _on_line(code, line):
    if _count[1]:
        _count[0] += 1
        if _count[0] > _count[1]:
            _count[1] = 0
            raise StepBudgetExceeded()


def _install_monitor():
    if _MON is None:
        return False
    if _MON.get_tool(_TOOL) not in (None, "vf-c20"):
        return False
    if _MON.get_tool(_TOOL) is None:
        _MON.use_tool_id(_TOOL, "vf-c20")
    _MON.register_callback(_TOOL, _MON.events.LINE, _on_line)
    for code in _LOOPING:
        _MON.set_local_events(_TOOL, code, _MON.events.LINE)
    return True


_MONITORED = _install_monitor()


@contextlib.contextmanager
def step_budget(n):
    if _MONITORED:
        _count[0], _count[1] = 0, n
        try:
            yield
        finally:
            _count[1] = 0
        return
    # fallback (no sys.monitoring): settrace on the looping methods
    codes = set(_LOOPING)
    count = [0]

    def local(frame, event, arg):
        if event == "line":
            count[0] += 1
            if count[0] > n:
                raise StepBudgetExceeded()
        return local

    def glob(frame, event, arg):
        return local if frame.f_code in codes else None

    old = sys.gettrace()
    sys.settrace(glob)
    try:
        yield
    finally:
        sys.settrace(old)


def check_fiber(f, rec, child_objs, dims, desc, where, bases, recorder):
    try:
        with step_budget(STEP_BUDGET):
            _check_fiber(f, rec, child_objs, dims, desc, where, bases, recorder)
    except StepBudgetExceeded:
        raise Violation("hang", f"{where}: coords {rec['coords']}: scanning / coordToHandle / getSize of one fiber "
                        f"executed more than {STEP_BUDGET} codec lines (non-terminating loop)")


def _check_fiber(f, rec, child_objs, dims, desc, where, bases, recorder):
    fmt, r, leaf = rec["fmt"], rec["rank"], rec["leaf"]
    n = dims[r]
    f.cache = StubCache()
    cls_name = {"U": "Uncompressed", "C": "CoordinateList", "B": "Bitvector"}[fmt]
    if type(f).__name__ != cls_name:
        raise Violation("format", f"{where}: fiber object is a {type(f).__name__}, descriptor says {cls_name}")
    coords = rec["coords"]
    vals = rec["values"]
    # -- full scan and scans from a start coordinate
    for base in bases:
        got = scan(f, fmt, base, leaf, where)
        idx = [i for i, c in enumerate(coords) if c >= base]
        if [g[0] for g in got] != [coords[i] for i in idx]:
            raise Violation("scan" if base == 0 else "slice-base",
                            f"{where}: scan from {base} gives coordinates {[g[0] for g in got]}, "
                            f"layout holds {[coords[i] for i in idx]}")
        if leaf:
            want = [vals[i] for i in idx]
            gv = [g[2] for g in got]
            if len(gv) != len(want) or not all(same(a, b) for a, b in zip(gv, want)):
                raise Violation("scan" if base == 0 else "slice-base",
                                f"{where}: scan from {base} gives values {gv}, layout holds {want}")
        elif not (fmt == "C" and desc[r + 1] == "U"):
            # the payload handle selects the child fiber object (a C fiber above
            # U keeps no payload list: position arithmetic only)
            pl = f.getPayloads()
            for g, i in zip(got, idx):
                p = g[1]
                if type(p) is not int or not 0 <= p < len(pl) or pl[p] is not child_objs[i]:
                    raise Violation("scan-child", f"{where}: scan from {base}: payload handle {p!r} of coordinate "
                                    f"{g[0]} does not select child fiber #{i} of this fiber")
    # -- coordinate lookup
    if fmt == "C":
        # (in ascending order, then in descending order: a lookup must not depend on the one before)
        for q in list(range(-1, n + 1)) + list(range(n, -2, -1)):
            want = next((i for i, c in enumerate(coords) if c >= q), None)
            got = f.coordToHandle(q)
            if not (got is None and want is None) and not same(got, want):
                raise Violation("coordToHandle", f"{where}: coords {coords}: coordToHandle({q}) = {got!r}, "
                                f"first stored coordinate >= {q} is at {want!r}")
    # -- size
    want = rec["cw"] + rec["pw"]
    k = len(coords)
    above_cb = (not leaf) and desc[r + 1] in "CB"
    try:
        got = f.getSize()
    except AssertionError:
        if fmt == "C" and above_cb and k == 0 and findings.is_open(ID, F_ASSERT):
            recorder.known(F_ASSERT)
            return
        raise
    if type(got) is not int or got != want:
        if fmt in "CB" and above_cb and k > 0 and got == want + k and findings.is_open(ID, F_SIZE):
            recorder.known(F_SIZE)
            return
        raise Violation("getSize", f"{where}: getSize() = {got!r}, the fiber contributed {rec['cw']} coordinate/mask "
                        f"word(s) + {rec['pw']} payload/occupancy word(s) = {want}")


def pick_bases(n, coords):
    """start coordinates for the slice scans: all of [0, n) when small, else
    the neighbourhood of the stored coordinates and of the word boundaries."""
    if n <= 8:
        return list(range(0, n))
    s = {0, 1, n - 1, 31, 32, 33}
    for c in coords[:6] + coords[-3:]:
        s.update((c - 1, c, c + 1))
    return sorted(x for x in s if 0 <= x < n)


# ---------------------------------------------------------------------------
# interleaved walk of the whole encoded tensor: the scan of a parent is still
# in progress while each child is scanned (the ordinary nested traversal of
# the swoop kernels); every fiber must keep its *own* scan position.

def nested_walk(f, r, prefix, desc, dims, kids_of, found, tag):
    fmt = desc[r]
    leaf = r == len(desc) - 1
    limit = (dims[r] if fmt != "C" else len(f.coords)) + 1
    kids = kids_of[id(f)]
    f.setupSlice(0)
    seen = 0
    while True:
        h = f.nextInSlice()
        if h is None:
            break
        seen += 1
        if seen > limit:
            raise Violation("nested-scan", f"{tag}: interleaved walk: fiber at {prefix} (rank {r}, {fmt}) yields more "
                            f"than {limit - 1} handles (its scan position is disturbed by the scans of other fibers)")
        c = f.handleToCoord(h)
        p = f.handleToPayload(h)
        if leaf:
            v = f.payloadToValue(p)
            if fmt == "U" and type(v) is int and v == 0:
                continue
            found.append((prefix + (c,), v))
        else:
            if fmt == "C" and desc[r + 1] == "U":
                if seen > len(kids):
                    raise Violation("nested-scan", f"{tag}: interleaved walk: fiber at {prefix} yields handle #{seen}, "
                                    f"it has {len(kids)} children")
                child = kids[seen - 1]           # position arithmetic: no payload list
            else:
                pl = f.getPayloads()
                if type(p) is not int or not 0 <= p < len(pl):
                    raise Violation("nested-scan", f"{tag}: interleaved walk: fiber at {prefix}: payload handle {p!r} "
                                    f"of coordinate {c} selects no child")
                child = pl[p]
            nested_walk(child, r + 1, prefix + (c,), desc, dims, kids_of, found, tag)


def check_nested(ot, desc, dims, kids_of, cont, tag):
    found = []
    try:
        with step_budget(NESTED_BUDGET):
            nested_walk(ot[1][0], 0, (), desc, dims, kids_of, found, tag)
    except StepBudgetExceeded:
        raise Violation("hang", f"{tag}: interleaved walk of the encoded tensor through the handle interface executed "
                        f"more than {NESTED_BUDGET} codec lines (non-terminating scan)")
    got = dict(found)
    if len(got) != len(found) or got != cont or any(not same(got[q], cont[q]) for q in cont):
        raise Violation("nested-scan", f"{tag}: interleaved walk (parent scan in progress while children are scanned) "
                        f"yields {sorted(found)}, tensor content is {sorted(cont.items())}")


# ---------------------------------------------------------------------------
# one (tensor, descriptor, shape) triple

def check_one(rank_ids, nest, natural, cont, desc, imposed, recorder, touch=(), estimated=False):
    tag = f"descriptor {''.join(desc)} shape={imposed} nest={nest}" + (f" touched={[tc['p'] for tc in touch]}" if touch else "")
    if estimated:
        # the shape of each rank is 1 + the largest coordinate stored in ANY of its fibers
        natural = [1 + max(p[i] for p in cont) for i in range(len(natural))]
        tag += " (tensor without declared shape)"
    t, output, ot = encode(rank_ids, nest, desc, imposed, touch, cont if estimated else None)
    if list(t.getShape()) != list(natural):
        raise Violation("setup", f"tensor shape {t.getShape()} != expected {natural}")
    dims = list(imposed) if imposed is not None else list(natural)
    try:
        dec = decode(output, rank_ids, desc, dims)
        if dec.content != cont or any(not same(dec.content[p], cont[p]) for p in cont):
            raise DecodeError(f"decoded content {sorted(dec.content.items())} != original {sorted(cont.items())}")
    except DecodeError as e:
        eff = shape_dropped_dims(desc, natural, imposed)
        ok = False
        if eff is not None and findings.is_open(ID, F_SHAPE):
            try:
                dec = decode(output, rank_ids, desc, eff)
                ok = dec.content == cont and all(same(dec.content[p], cont[p]) for p in cont)
            except DecodeError:
                ok = False
        if not ok:
            raise Violation("decode", f"{tag}: output {output}: {e}")
        recorder.known(F_SHAPE)
        dims = eff
    # the fiber objects, rank by rank in DFS order
    if len(ot) != len(desc) + 1 or len(ot[0]) != 1:
        raise Violation("fibers", f"{tag}: output_tensor has {[len(x) for x in ot]} fibers per level")
    for r in range(len(desc)):
        if len(ot[r + 1]) != len(dec.fibers[r]):
            raise Violation("fibers", f"{tag}: rank {r} has {len(ot[r + 1])} fiber objects, the arrays hold "
                            f"{len(dec.fibers[r])} fibers")
    if ot[0][0].getPayloads() != [ot[1][0]] or ot[0][0].getPayloads()[0] is not ot[1][0]:
        raise Violation("fibers", f"{tag}: root handle does not hold the rank-0 fiber")
    # ... and scanned like any encoded fiber it yields one element, at coordinate 0, that leads to the rank-0 fiber
    root = ot[0][0]
    root.cache = StubCache()
    rs = scan(root, "U", 0, False, f"{tag}: root handle")
    if len(rs) != 1 or rs[0][0] != 0 or type(rs[0][1]) is not int or root.getPayloads()[rs[0][1]] is not ot[1][0]:
        raise Violation("scan", f"{tag}: scanning the root handle yields {[(c, p) for c, p, _ in rs]}, expected one "
                        f"element at coordinate 0 selecting the rank-0 fiber")
    # the root handle is the encoded object that owns payloads_root: its size is what that array stores
    ot[0][0].cache = StubCache()
    rsize = ot[0][0].getSize()
    if type(rsize) is not int or rsize != len(output["payloads_root"]):
        raise Violation("getSize", f"{tag}: root handle reports getSize() = {rsize!r}, payloads_root stores "
                        f"{len(output['payloads_root'])} word(s)")
    nxt = [0] * (len(desc) + 1)
    kids_of = {}
    for r in range(len(desc)):
        for i, rec in enumerate(dec.fibers[r]):
            f = ot[r + 1][i]
            kids = ot[r + 2][nxt[r + 1]:nxt[r + 1] + rec["nchildren"]] if not rec["leaf"] else []
            nxt[r + 1] += rec["nchildren"]
            kids_of[id(f)] = kids
            where = f"{tag}: rank {r} fiber #{i} at {rec['prefix']}"
            check_fiber(f, rec, kids, dims, desc, where, pick_bases(dims[r], rec["coords"]), recorder)
    # every fiber has its stub cache now: walk the whole tensor with interleaved scans
    check_nested(ot, desc, dims, kids_of, cont, tag)


def check(case, rec):
    rank_ids = case["rank_ids"]
    dims = case["dims"]
    flat = case["flat"]
    grow = case["grow"]
    d = len(dims)
    nest = nest_of(dims, flat)
    cont = content_of(dims, flat)
    if model.nest_shape(nest) != list(dims) or model.nest_content(nest) != cont:
        raise RuntimeError("harness: nest construction")
    imposed = [n + g for n, g in zip(dims, grow)]
    touch = case.get("touch", [])
    for tc in touch:
        q = tuple(tc["p"])
        if not 1 <= len(q) <= d or any(not 0 <= c < n for c, n in zip(q, dims)) or (len(q) == d and q in cont):
            raise RuntimeError("harness: touch point outside the zero positions")
    with contextlib.redirect_stdout(io.StringIO()):
        for desc in itertools.product(FMTS, repeat=d):
            for shp in (None, imposed):
                check_one(rank_ids, nest, dims, cont, desc, shp, rec, touch)
            if cont and not touch and case.get("estimated"):
                check_one(rank_ids, nest, dims, cont, desc, None, rec, (), estimated=True)
    # classification
    total = 1
    for n in dims:
        total *= n
    empty = has_empty_fiber(dims, cont)
    rec.cls(f"depth{d}")
    rec.cls("all-zero", not cont)
    rec.cls("dense", len(cont) == total)
    rec.cls("sparse", 0 < len(cont) < total)
    rec.cls("empty-fiber", empty)
    rec.cls("empty-fiber-depth>=2", empty and d >= 2)
    rec.cls("imposed>natural", any(grow))
    rec.cls("mask>32bits", any(n > BITS_PER_WORD for n in imposed))
    rec.cls("float-leaf", any(isinstance(v, float) for v in flat))
    prefixes = {q[:k] for q in cont for k in range(1, d)}
    rec.cls("explicit-zero-leaf", any(len(tc["p"]) == d for tc in touch))
    rec.cls("explicit-empty-subfiber", any(len(tc["p"]) < d and tuple(tc["p"]) not in prefixes for tc in touch))
    rec.cls("all-explicit-zero-subfiber", any(len(tc["p"]) == d and d > 1 and tuple(tc["p"][:-1]) not in prefixes
                                              for tc in touch))
    rec.cls("canonical", not touch)
    rec.nontrivial(d >= 2 and empty)


# ---------------------------------------------------------------------------
# generator

RANK_SETS = {1: [["M"], ["K0"]], 2: [["M", "K"], ["K1", "K0"]], 3: [["M", "K", "N"], ["N1", "K0", "N0"]]}
VALUES = [1, 2, 3, 4, 5, 7, 9, -1, -2, 10, 255, 0.5, -2.5, 1.25]


@st.composite
def cases(draw):
    d = draw(st.sampled_from([1, 2, 2, 2, 3, 3, 3]))
    if d == 1:
        dims = [draw(st.one_of(st.integers(1, 8), st.integers(1, 8), st.integers(30, 70)))]
    elif d == 2:
        dims = [draw(st.integers(1, 6)), draw(st.integers(1, 6))]
        if draw(st.integers(0, 7)) == 0:
            dims[draw(st.integers(0, 1))] = draw(st.integers(31, 40))
    else:
        dims = [draw(st.integers(1, 4)) for _ in range(3)]
    total = 1
    for n in dims:
        total *= n
    # density class: all-zero, sparse, half, nearly dense, dense
    zeros = draw(st.sampled_from([6, 6, 2, 2, 2, 1, 1, 0, 0, None]))
    if zeros is None:
        flat = [0] * total
    else:
        pool = st.sampled_from(VALUES + [0] * (zeros * len(VALUES) // 2))
        flat = draw(st.lists(pool, min_size=total, max_size=total))
    # zero whole rows / slabs -> empty fibers
    if d >= 2 and zeros is not None:
        rows = total // dims[-1]
        kill = draw(st.lists(st.sampled_from([False, False, True]), min_size=rows, max_size=rows)) \
            if draw(st.sampled_from([True, False, False])) else []
        for i, kflag in enumerate(kill):
            if kflag:
                flat[i * dims[-1]:(i + 1) * dims[-1]] = [0] * dims[-1]
        if d == 3 and draw(st.sampled_from([True, False, False])):
            slab = total // dims[0]
            i = draw(st.integers(0, dims[0] - 1))
            flat[i * slab:(i + 1) * slab] = [0] * slab
    grow = [draw(st.sampled_from([0, 0, 1, 2, 3])) for _ in range(d)]
    if draw(st.integers(0, 5)) == 0:
        # one rank much longer than natural (several mask words), volume kept small
        r = draw(st.integers(0, d - 1))
        g = draw(st.sampled_from([28, 31, 32, 60, 64]))
        vol = 1
        for i, n in enumerate(dims):
            vol *= (n + (g if i == r else grow[i]))
        if vol <= 1200:
            grow[r] = g
    # non-canonical storage: explicit zeros / explicitly empty sub-fibers at zero positions
    touch = []
    if draw(st.sampled_from([True, True, False])):
        zero_pts = [q for q, v in zip(itertools.product(*[range(n) for n in dims]), flat) if v == 0]
        for _ in range(draw(st.integers(1, 4))):
            if not zero_pts:
                break
            q = list(zero_pts[draw(st.integers(0, len(zero_pts) - 1))])
            k = draw(st.integers(1, d)) if d > 1 else d
            w = draw(st.booleans())
            if k < d and any(tuple(q[:k]) == z[:k] for z in content_of(dims, flat)):
                k = d                      # prefix already stored: make it an explicit zero leaf instead
            tc = {"p": q[:k], "w": bool(w and k == d)}
            if tc not in touch:
                touch.append(tc)
    return {"rank_ids": draw(st.sampled_from(RANK_SETS[d])), "dims": dims, "flat": flat, "grow": grow,
            "touch": touch, "estimated": not touch}


def enumerate_small(tier):
    """all zero / non-zero patterns of small shapes, every descriptor, with and
    without an imposed shape one longer in every rank."""
    shapes = [[1], [2], [3], [4], [1, 1], [1, 2], [2, 1], [2, 2], [2, 3], [3, 2], [1, 2, 2], [2, 1, 2], [2, 2, 1],
              [2, 2, 2]]
    if tier == "thorough":
        shapes += [[5], [6], [3, 3], [2, 4], [2, 2, 3], [3, 2, 2]]
    for dims in shapes:
        total = 1
        for n in dims:
            total *= n
        for mask in range(2 ** total):
            flat = [(i + 1) if (mask >> i) & 1 else 0 for i in range(total)]
            yield {"rank_ids": RANK_SETS[len(dims)][0], "dims": dims, "flat": flat, "grow": [1] * len(dims),
                   "estimated": True}
            if total <= 4 and mask != 2 ** total - 1:
                # the same pattern stored non-canonically: every zero leaf explicit / every absent prefix
                # an explicitly empty sub-fiber
                pts = list(itertools.product(*[range(n) for n in dims]))
                zero = [list(q) for q, v in zip(pts, flat) if v == 0]
                yield {"rank_ids": RANK_SETS[len(dims)][0], "dims": dims, "flat": flat, "grow": [1] * len(dims),
                       "touch": [{"p": q, "w": bool(i % 2)} for i, q in enumerate(zero)]}
                stored = {q[:k] for q, v in zip(pts, flat) if v != 0 for k in range(1, len(dims))}
                absent = sorted({q[:k] for q in pts for k in range(1, len(dims))} - stored)
                if absent:
                    yield {"rank_ids": RANK_SETS[len(dims)][0], "dims": dims, "flat": flat,
                           "grow": [1] * len(dims), "touch": [{"p": list(q), "w": False} for q in absent]}


PARTS = [
    Part("small", None, check, n_quick=0, n_thorough=0, enumerate=enumerate_small,
         exhaustive_note="every zero/non-zero pattern of the shapes [1]..[4], [1,1]..[3,2], [1,2,2], [2,1,2], "
                         "[2,2,1], [2,2,2] (thorough: also [5], [6], [3,3], [2,4], [2,2,3], [3,2,2]) x all 3^depth "
                         "descriptors x {no shape, shape+1 in every rank}"),
    Part("codec", cases(), check, n_quick=450, n_thorough=2500),
]


def coverage_warnings(rec):
    n = max(1, sum(v for k, v in rec.classes.items() if k.startswith("codec:depth")))
    out = []
    for k, floor in (("codec:empty-fiber-depth>=2", 0.3), ("codec:all-zero", 0.03), ("codec:dense", 0.03),
                     ("codec:imposed>natural", 0.5), ("codec:mask>32bits", 0.08), ("codec:depth3", 0.2),
                     ("codec:explicit-zero-leaf", 0.2), ("codec:explicit-empty-subfiber", 0.08),
                     ("codec:canonical", 0.2)):
        if rec.classes.get(k, 0) / n < floor:
            out.append(f"{k} only {rec.classes.get(k, 0)}/{n}")
    return out


# ---------------------------------------------------------------------------
# pinned reproducers of the known findings

def _quiet(fn):
    with contextlib.redirect_stdout(io.StringIO()):
        return fn()


def pinned_shape():
    def run():
        # B above U, imposed shape [2, 3] on a [2, 2] tensor
        _, out, ot = encode(["M", "K"], [[1, 2], [0, 3]], ("B", "U"), [2, 3])
        if out["payloads_k"] != [1, 2, 0, 0, 3, 0]:
            return (f"Codec('B','U').encode(shape=[2,3]) of [[1,2],[0,3]]: payloads_k = {out['payloads_k']}, "
                    f"U fibers of shape 3 are [1,2,0,0,3,0] (Bitvector.encodeFiber drops shape= for its children)")
        return None
    return _quiet(run)


def pinned_size():
    def run():
        msgs = []
        for top in "CB":
            _, out, ot = encode(["M", "K"], [[1, 2], [0, 3]], (top, "C"), None)
            f = ot[1][0]
            f.cache = StubCache()
            words = (2 if top == "C" else 1) + 2     # coords / one mask word + two occupancies
            if f.getSize() != words:
                msgs.append(f"{top}-above-C root fiber of [[1,2],[0,3]]: getSize() = {f.getSize()}, "
                            f"it stores {words} words (child handles are counted as payload words)")
        return "; ".join(msgs) or None
    return _quiet(run)


def pinned_assert():
    def run():
        _, out, ot = encode(["M", "K"], [[0, 0], [0, 0]], ("C", "C"), None)
        f = ot[1][0]
        f.cache = StubCache()
        try:
            s = f.getSize()
        except AssertionError:
            return "getSize() of the empty C-above-C root fiber of an all-zero tensor raises AssertionError (stores 0 words)"
        return None if s == 0 else f"getSize() of an empty C-above-C fiber = {s}, stores 0 words"
    return _quiet(run)


PINNED = {F_SHAPE: pinned_shape, F_SIZE: pinned_size, F_ASSERT: pinned_assert}
