"""C12 -- equality, emptiness and counting depend on content only."""

import copy

from hypothesis import strategies as st

from fibertree import Fiber, Payload, Tensor

from .. import build, gen, model, observe
from ..core import Part, Violation

ID = "C12"
RULE = ("Pairs/triples of trees (depth 1-3, same rank ids and default) are derived from one generated "
        "content by representation fuzzing (merged-in explicit defaults and empty sub-fibers, larger shape, "
        "different construction route, owned tensor / owned root fiber / unowned fiber, deepcopy) and by "
        "single-leaf content edits (change / remove / add / move one leaf), plus independent random pairs. "
        "Oracle: a==b iff model contents are equal; reflexive, symmetric, transitive; deepcopy equal; "
        "isEmpty iff content empty; countValues == |content|; nonEmpty() is the canonical tree. "
        "Non-trivial: both trees non-empty and (same content with different stored representation, or "
        "contents differing in exactly one leaf at depth >= 2). Distinct = SHA-1 of the generated case.")
ASSUMPTIONS = ["both operands share rank ids and leaf default (the statement compares such trees)",
               "leaf values are ints / dyadic floats, so == on values is exact"]


def merge_noise(tree, noise, d):
    """Union of structures: keep tree's children, add noise-only coordinates."""
    tmap = {model.tuplify(c): ch for c, ch in tree}
    nmap = {model.tuplify(c): ch for c, ch in noise}
    out = []
    for c in sorted(set(tmap) | set(nmap)):
        if c in tmap and c in nmap and d > 1:
            out.append([c, merge_noise(tmap[c], nmap[c], d - 1)])
        elif c in tmap:
            out.append([c, tmap[c]])
        else:
            out.append([c, nmap[c]])
    return out


def edit_content(cont, shape, default, mode, sel, val):
    """Apply a single-leaf edit; returns new content (may be unchanged if impossible)."""
    cont = dict(cont)
    pts = sorted(cont)
    if mode == "same":
        return cont
    if mode == "add" or not pts:
        free = [p for p in model.all_points(shape) if p not in cont]
        if free:
            cont[free[sel % len(free)]] = val
        return cont
    p = pts[sel % len(pts)]
    if mode == "nudge":
        # the smallest kind of difference: a neighbouring value (equality is exact, there is no tolerance)
        v = cont[p]
        nv = v * (1 + 2.0 ** -40) if v != 0 else 2.0 ** -40
        cont[p] = nv if nv != default and nv != v else v + 1
        return cont
    if mode == "change":
        cont[p] = val if val != cont[p] else val + 1 if val + 1 != default else val + 2
    elif mode == "remove":
        del cont[p]
    elif mode == "move":
        sib = [p[:-1] + (c,) for c in range(shape[-1]) if p[:-1] + (c,) not in cont]
        if sib:
            q = sib[(sel // 7) % len(sib)]
            cont[q] = cont.pop(p)
    return cont


@st.composite
def variant(draw, shape, default):
    """How to (re)present a content: noise tree, shape growth, route, wrapper."""
    grow = [draw(st.integers(0, 2)) for _ in shape]
    big = [s + g for s, g in zip(shape, grow)]
    # (an explicit default may be stored as another numeric type: 0.0 under the default 0 is what a cancelling
    # float sum leaves behind, and it is as empty as 0)
    dleaf = st.sampled_from([default, default, float(default)]) if isinstance(default, int) else st.just(default)
    noise = draw(st.one_of(st.just([]), gen.trees(big, default, leaf=dleaf, max_elems=3),
                           gen.trees(big, default, leaf=dleaf, max_elems=3)))
    return {"noise": noise, "shape": big,
            "route": draw(st.sampled_from(["ref", "fiber", "uncompressed", "yaml", "deepcopy"])),
            "as": draw(st.sampled_from(["tensor", "root", "unowned"])),
            # the last top-level element is attached by hand (Fiber.append of a value / an unowned
            # sub-fiber) instead of through the tensor: counting and equality must follow the tree
            "hand": draw(st.sampled_from([False, False, True])),
            # rank formats are configuration, not content
            "fmtU": draw(st.sampled_from([0, 0, 0, 1, 2, 3]))}


@st.composite
def cases(draw):
    dd = draw(st.sampled_from([1, 2, 2, 3, 3]))
    bshape = [draw(st.integers(2, 5)) for _ in range(dd)]
    base = draw(gen.tree_specs(shape=bshape, defaults=(0, 0, 0, 3), floats=True))
    shape, default = base["shape"], base["default"]
    nvar = draw(st.sampled_from([2, 2, 3]))
    vs = []
    for i in range(nvar):
        v = draw(variant(shape, default))
        v["edit"] = draw(st.sampled_from(["same", "same", "change", "remove", "add", "move", "nudge"])) if i else "same"
        v["sel"] = draw(st.integers(0, 1000))
        v["val"] = draw(gen.nondefault_values(default))
        vs.append(v)
    indep = None
    if draw(st.integers(0, 5)) == 0:
        indep = draw(gen.tree_specs(shape=shape, defaults=(default,), floats=True))
    return {"base": base, "variants": vs, "independent": indep}


def realise(base, v, cont):
    d = model.depth(base)
    tree = merge_noise(model.tree_from_content(cont, d), v["noise"], d)
    spec = {"rank_ids": base["rank_ids"], "shape": v["shape"], "default": base["default"], "tree": tree}
    if v["as"] == "unowned":
        return spec, build.build_fiber(spec), None
    if v.get("hand") and tree:
        # build without the last top-level element, then append it by hand
        (c_last, ch_last) = tree[-1]
        t = build.build_tensor(dict(spec, tree=tree[:-1]), v["route"])
        sub = ch_last if d == 1 else build.nested_fiber(ch_last, d - 1, v["shape"][1:], base["default"])
        t.getRoot().append(c_last, sub)
    else:
        t = build.build_tensor(spec, v["route"])
    for i, r in enumerate(spec["rank_ids"]):
        if v.get("fmtU", 0) >> i & 1 and i < 2:
            t.setFormat(r, "U")
    # name and colour are configuration, not content ("names and colors do not need to match")
    if v["sel"] % 3 == 1:
        t.setColor(["blue", "green", "red"][(v["sel"] // 3) % 3])
    if v["sel"] % 4 == 2:
        t.setName("T%d" % ((v["sel"] // 4) % 3))
    return spec, (t if v["as"] == "tensor" else t.getRoot()), t


def as_fiber(x):
    return x.getRoot() if isinstance(x, Tensor) else x


def check(case, rec):
    base = case["base"]
    d = model.depth(base)
    default = base["default"]
    cont0 = model.content(base)
    objs = []
    # object 0 is the generated tree itself (non-canonical as generated)
    v0 = case["variants"][0]
    spec0 = dict(base)
    o0 = build.build_fiber(spec0) if v0["as"] == "unowned" else None
    t0 = None
    if o0 is None:
        t0 = build.build_tensor(spec0, v0["route"])
        o0 = t0 if v0["as"] == "tensor" else t0.getRoot()
    objs.append((spec0, o0, cont0))
    for v in case["variants"][1:]:
        # (the variant's own, possibly larger, shape: a pair may differ at a point outside the other's shape)
        cont = edit_content(cont0, v["shape"], default, v["edit"], v["sel"], v["val"])
        spec, o, _ = realise(base, v, cont)
        objs.append((spec, o, cont))
    if case["independent"]:
        sp = case["independent"]
        objs.append((sp, build.build_tensor(sp, "ref").getRoot(), model.content(sp)))

    def eq(x, y):
        # Tensor.__eq__ needs a Tensor on the right as well
        if isinstance(x, Tensor) != isinstance(y, Tensor):
            x, y = as_fiber(x), as_fiber(y)
        r = (x == y)
        if r is not True and r is not False:
            raise Violation("eq-type", f"== returned {r!r}")
        return r

    # per-object queries
    for spec, o, cont in objs:
        f = as_fiber(o)
        if not eq(o, o):
            raise Violation("reflexive", f"x == x is False for {spec['tree']}")
        if f.isEmpty() != (len(cont) == 0):
            raise Violation("isEmpty", f"isEmpty()={f.isEmpty()} but content has {len(cont)} points: {spec['tree']}")
        n = o.countValues()
        if n != len(cont):
            raise Violation("countValues", f"countValues()={n}, content has {len(cont)} points: {spec['tree']}")
        dc = copy.deepcopy(o)
        if not eq(dc, o) or not eq(o, dc):
            raise Violation("deepcopy-eq", f"deepcopy(x) != x for {spec['tree']}")
        ne = f.nonEmpty()
        if not eq(ne, f) or not eq(f, ne):
            raise Violation("nonEmpty-eq", f"nonEmpty() != original for {spec['tree']}")
        got = observe.tree_of(ne)
        want = model.tree_from_content(cont, d)
        if got != want:
            raise Violation("nonEmpty-canonical", f"nonEmpty() stored {got}, canonical is {want}")

    # pairwise
    res = {}
    for i in range(len(objs)):
        for j in range(len(objs)):
            if i == j:
                continue
            want = objs[i][2] == objs[j][2]
            got = eq(objs[i][1], objs[j][1])
            res[(i, j)] = got
            if got != want:
                raise Violation("eq-content", f"(a==b)={got} but contents {'equal' if want else 'differ'}: "
                                f"a={objs[i][0]['tree']} b={objs[j][0]['tree']} "
                                f"(a as {type(objs[i][1]).__name__}, b as {type(objs[j][1]).__name__})")
    for (i, j), g in res.items():
        if res[(j, i)] != g:
            raise Violation("symmetric", f"a==b is {g} but b==a is {res[(j, i)]}")
    n = len(objs)
    for i in range(n):
        for j in range(n):
            for k in range(n):
                if len({i, j, k}) == 3 and res[(i, j)] and res[(j, k)] and not res[(i, k)]:
                    raise Violation("transitive", "a==b and b==c but not a==c")

    # the first object is then updated in place at a stored leaf (a value becomes the default, or an explicit
    # default becomes a value: no element is added or removed) and asked again -- the answers describe the tree as
    # it is now
    spec_u, o_u, cont_u = objs[0]
    boxes = []

    def leaves(f, prefix):
        for c, p in zip(f.coords, f.payloads):
            if isinstance(p, Fiber):
                leaves(p, prefix + (c,))
            else:
                boxes.append((prefix + (c,), p))
    leaves(as_fiber(o_u), ())
    if boxes and len(boxes[0][0]) == d:
        pt, box = boxes[case["variants"][0]["sel"] % len(boxes)]
        cont_u = dict(cont_u)
        if Payload.get(box) == default:
            box <<= case["variants"][0]["val"]
            cont_u[pt] = case["variants"][0]["val"]
        else:
            box <<= default
            cont_u.pop(pt, None)
        f_u = as_fiber(o_u)
        if f_u.isEmpty() != (len(cont_u) == 0):
            raise Violation("isEmpty", f"after an in-place update at {pt}: isEmpty()={f_u.isEmpty()} but the content has "
                            f"{len(cont_u)} points")
        if o_u.countValues() != len(cont_u):
            raise Violation("countValues", f"after an in-place update at {pt}: countValues()={o_u.countValues()}, the "
                            f"content has {len(cont_u)} points")
        for spec, o, cont in objs[1:]:
            if eq(o_u, o) != (cont_u == cont) or eq(o, o_u) != (cont_u == cont):
                raise Violation("eq-content", f"after an in-place update at {pt} (a == b) is {eq(o_u, o)} but the contents "
                                f"{'are equal' if cont_u == cont else 'differ'}")
        rec.cls("asked-again-after-update")

    # classification
    a_spec, _, a_cont = objs[0]
    nt = False
    for spec, _, cont in objs[1:]:
        if not a_cont or not cont:
            continue
        if cont == a_cont and spec["tree"] != a_spec["tree"]:
            noisy = model.has_explicit_default(spec["tree"], d, default) or model.has_empty_subfiber(spec["tree"], d) \
                or model.has_explicit_default(a_spec["tree"], d, default) or model.has_empty_subfiber(a_spec["tree"], d)
            if rec.cls("same-content-diff-rep", noisy):
                nt = True
        diff = set(a_cont.items()) ^ set(cont.items())
        pts = {p for p, _ in diff}
        if cont != a_cont and (len(pts) == 1 or (len(pts) == 2 and len(diff) == 2)):
            rec.cls("one-leaf-diff")
            if d >= 2:
                rec.cls("one-deep-leaf-diff")
                nt = True
    rec.cls("triple", len(objs) >= 3)
    rec.cls("nonzero-default", default != 0)
    rec.cls(f"depth{d}")
    rec.cls("mixed-ownership", len({type(o).__name__ + str(as_fiber(o).getOwner() is None) for _, o, _ in objs}) > 1)
    rec.nontrivial(nt)


PARTS = [Part("eq", cases(), check, n_quick=2500, n_thorough=25000)]


def coverage_warnings(rec):
    n = max(1, rec.evaluations)
    out = []
    for k, floor in (("eq:same-content-diff-rep", 0.15), ("eq:one-deep-leaf-diff", 0.1)):
        if rec.classes.get(k, 0) / n < floor:
            out.append(f"{k} only {rec.classes.get(k, 0)}/{n}")
    return out
