"""Interpreter of generated operation histories on a real fibertree.

An *op* is a JSON-able dict with an "op" key and integer selectors that are
resolved against the *current* real tree (modulo its current sizes), so that a
history is one generated value that shrinks and replays without Hypothesis.

The interpreter knows, for every op, which argument choices the library is
documented to reject (and with which exception); everything else that raises
from inside the library surfaces as a crash violation in the runner.
"""

from hypothesis import strategies as st

from fibertree import Fiber, Payload, Tensor, CoordPayload
from fibertree.core.fiber import CoordinateError

from . import build, gen, model, observe
from .core import Violation

MUTATORS = ["ref", "ref", "ref", "append", "extend", "setitem", "setitem", "fiber_arith", "assign", "populate",
            "populate", "denseref", "updateCoords", "updatePayloads", "clear", "positionRef"]


# ---------------------------------------------------------------- strategies
@st.composite
def op(draw, kinds=MUTATORS, default=0):
    k = draw(st.sampled_from(kinds))
    o = {"op": k, "path": draw(st.lists(st.integers(0, 7), max_size=3)),
         "sel": draw(st.lists(st.integers(0, 9), min_size=4, max_size=4)),
         "val": draw(gen.values(default)), "mode": draw(st.integers(0, 11))}
    if k in ("extend", "fiber_arith", "assign", "populate", "elem_assign"):
        o["other"] = draw(st.lists(st.tuples(st.integers(0, 7), gen.values(default)), max_size=4))
    if k == "populate":
        o["plan"] = draw(st.lists(st.sampled_from(["leave", "assign", "assign", "acc", "default", "writethendefault"]),
                                  min_size=1, max_size=5))
        o["descend"] = draw(st.lists(st.sampled_from(["descend", "descend", "skip", "reserve"]), min_size=1, max_size=3))
        o["src"] = draw(gen.trees([6, 6, 6], default, max_elems=3))   # cut to the needed depth/shape when used
    if k in ("assign", "fiber_arith"):
        o["src"] = draw(gen.trees([6, 6, 6], default, max_elems=3))
    if k == "updateCoords":
        o["perm"] = draw(st.permutations(list(range(8))))
    return o


# ---------------------------------------------------------------- helpers
def cut_tree(tree, shape, d):
    """restrict a generated 3-level tree over [6,6,6] to depth d over `shape`"""
    out = []
    for c, ch in tree:
        if c >= shape[0]:
            continue
        if d == 1:
            v = ch
            while isinstance(v, list):       # take some leaf value
                v = v[0][1] if v else 1
            out.append([c, v])
        else:
            out.append([c, cut_tree(ch if isinstance(ch, list) else [], shape[1:], d - 1)])
    return out


class Machine:
    def __init__(self, spec, how):
        """how: a build route (owned tensor) or 'unowned'"""
        self.spec = spec
        self.d = model.depth(spec)
        self.shape = list(spec["shape"])
        self.default = spec["default"]
        if how == "unowned":
            self.t = None
            self.root = build.build_fiber(spec, name_ranks=True)
        else:
            self.t = build.build_tensor(spec, how)
            # (dump -> load of a tensor WITHOUT declared shape hands on the estimate as the declared shape of the
            # loaded tensor; writing beyond a declared shape is the caller's error, so such a history starts from
            # the reference route instead -- the YAML route keeps its histories for declared shapes)
            decl = self.t.getShape(authoritative=True)
            if decl is not None and list(decl) != self.shape:
                self.t = build.build_tensor(spec, "ref")
            self.root = self.t.getRoot()
        self.log = []

    @property
    def owned(self):
        return self.t is not None

    # -- selection
    def target(self, path, max_level=None):
        f, lvl = self.root, 0
        for s in path:
            if lvl >= self.d - 1 or (max_level is not None and lvl >= max_level):
                break
            if not f.payloads:
                break
            f = f.payloads[s % len(f.payloads)]
            lvl += 1
        return f, lvl

    existing_only = False     # set after a split: new coordinates would have to respect the partitions

    def point(self, sel, n):
        if self.existing_only:
            f, pt = self.root, []
            for i in range(n):
                if not isinstance(f, Fiber) or not f.coords:
                    return None
                j = sel[i] % len(f.coords)
                pt.append(f.coords[j])
                f = f.payloads[j]
            return tuple(pt)
        return tuple(sel[i] % self.shape[i] for i in range(n))

    def leaf_fiber_from(self, other, lvl, default=None):
        """unowned leaf fiber from [(c, v)...] restricted to the shape of level lvl"""
        seen = {}
        for c, v in other:
            seen[c % self.shape[lvl]] = v
        cs = sorted(seen)
        f = Fiber(cs, [seen[c] for c in cs], shape=self.shape[lvl],
                  default=self.default if default is None else default)
        return f

    # -- one step
    def step(self, o, rec=None):
        """returns (outcome, info); outcome in {'ok', 'rejected', 'skipped'}"""
        k = o["op"]
        if self.existing_only and k in ("populate", "denseref", "assign", "positionRef", "append", "extend",
                                        "setitem", "fiber_arith", "updateCoords", "insert"):
            return ("skipped", {})
        fn = getattr(self, "op_" + k)
        res = fn(o)
        self.log.append((k, res[0]))
        return res

    def _rejected(self, before, what, exc, order=True):
        """a documented rejection: for order violations the tree must be unchanged"""
        if order and observe.snap(self.root) != before:
            raise Violation("rejected-but-modified",
                            f"{what} was rejected with {type(exc).__name__} but changed the tree: "
                            f"{before} -> {observe.snap(self.root)}")
        return ("rejected", type(exc).__name__)

    # ---------------- ops
    def op_ref(self, o):
        n = 1 + o["mode"] % self.d if o["mode"] % 4 == 0 else self.d     # mostly full points, sometimes prefixes
        pt = self.point(o["sel"] + o["sel"], n)
        if pt is None:
            return ("skipped", {})
        holder = self.t if (self.owned and o["mode"] % 3 == 0) else self.root
        ref = holder.getPayloadRef(*pt)
        if n == self.d:
            act = o["mode"] % 5
            val = o["val"]
            if o["sel"][3] % 4 == 3 and act in (2, 3):
                # the operand is a whole element taken out of a fiber by position (z_ref += a[0]);
                # (assignment documents "Payload or scalar" operands only)
                val = Fiber([1], [o["val"]])[0]
            if act == 1:
                ref <<= val
            elif act == 2:
                ref += val
            elif act == 3:
                ref *= val
            elif act == 4:
                ref <<= self.default
        return ("ok", {"point": pt})

    def op_positionRef(self, o):
        f, lvl = self.target(o["path"])
        c = o["sel"][0] % self.shape[lvl]
        pos = f.getPositionRef(c)
        if f.coords[pos] != c:
            raise Violation("positionRef", f"getPositionRef({c}) returned {pos} but coords[{pos}]={f.coords[pos]}")
        return ("ok", {})

    def op_append(self, o):
        f, lvl = self.target(o["path"])
        if lvl < self.d - 1 and self.owned:
            # appending a fiber into an owned interior fiber bypasses the tensor: not a public way
            # of growing a tensor (swizzle/unflatten append into unowned trees only)
            f, lvl = self.target(o["path"] + [0, 0, 0])
            if lvl < self.d - 1:
                return ("skipped", {})
        last = f.coords[-1] if f.coords else None
        m = o["mode"] % 4
        if last is not None and last + 1 >= self.shape[lvl] and m in (0, 1):
            m = 2 + m          # no room above the last coordinate inside the shape: try the illegal flavours
        if last is None or m in (0, 1):
            c = min(last + 1 + o["sel"][0] % 2, self.shape[lvl] - 1) if last is not None else o["sel"][0] % self.shape[lvl]
            legal = True
        elif m == 2:
            c, legal = last, False
        else:
            c, legal = max(0, last - 1 - o["sel"][0] % 2), False
            if c == last:
                legal = False
        if lvl == self.d - 1:
            v = o["val"]
        else:
            v = build.nested_fiber([], self.d - lvl - 1, self.shape[lvl + 1:], self.default)
        before = observe.snap(self.root)
        try:
            f.append(c, v)
        except AssertionError as e:
            if legal:
                raise Violation("append-rejected", f"append({c}) after last coordinate {last} raised AssertionError")
            return self._rejected(before, f"append({c}) after {last}", e)
        if not legal:
            # accepted although out of order: the well-formedness invariant will report it
            return ("ok", {"illegal-accepted": True})
        return ("ok", {})

    def op_extend(self, o):
        f, lvl = self.target(o["path"] + [0, 0, 0])
        if lvl < self.d - 1:
            return ("skipped", {})
        other = self.leaf_fiber_from(o["other"], lvl)
        last = f.coords[-1] if f.coords else None
        if o["mode"] % 2 == 0 and last is not None and other.coords:
            # shift above: the legal flavour
            shift = last + 1 - other.coords[0]
            if shift > 0:
                other = Fiber([c + shift for c in other.coords], list(other.payloads), shape=self.shape[lvl],
                              default=self.default)
        nonempty = any(Payload.get(p) != self.default for p in other.payloads)
        legal = (not nonempty) or last is None or last < other.coords[0]
        before = observe.snap(self.root)
        try:
            f.extend(other)
        except AssertionError as e:
            if legal:
                raise Violation("extend-rejected", f"extend with {other.coords} after {last} raised AssertionError")
            return self._rejected(before, f"extend({other.coords}) after {last}", e)
        if legal and o["mode"] // 2 % 2 and len(other.coords) >= 2:
            # the argument stays a fiber of its own ("not copied" is said of the elements, which are shared):
            # re-sorting IT afterwards is a mutation of `other`, the receiver keeps its coordinate / payload pairing
            # (the invariant that runs after this step looks at the receiver's tree)
            S = self.shape[lvl] + max(0, other.coords[-1] + 1 - self.shape[lvl])
            other.updateCoords(lambda i, c, p: S - 1 - c, new_shape=S)
            observe.wellformed(other, where="the argument of extend() after its own updateCoords")
            return ("ok", {"illegal-accepted": False, "argument-resorted": True})
        return ("ok", {"illegal-accepted": not legal})

    def op_setitem(self, o):
        f, lvl = self.target(o["path"])
        n = len(f.coords)
        pos = (o["sel"][0] % (2 * n + 3)) - (n + 1)            # in [-n-1, n+1]
        npos = pos + n if pos < 0 else pos
        in_range = 0 <= npos < n
        m = o["mode"] % 4
        leaf = lvl == self.d - 1
        coord = None
        if m in (1, 2, 3) and n > 0:
            # neighbour-aware coordinate choice: legal (strictly between neighbours) or illegal
            lo = f.coords[npos - 1] if in_range and npos > 0 else -1
            hi = f.coords[npos + 1] if in_range and npos + 1 < n else self.shape[lvl] + 2
            flavour = o["sel"][1] % 4
            if flavour == 0 and hi - lo >= 2:
                coord = lo + 1 + o["sel"][2] % (hi - lo - 1)
            elif flavour == 1:
                coord = lo if lo >= 0 else hi
            elif flavour == 2:
                coord = hi
            else:
                coord = o["sel"][2] % (self.shape[lvl] + 1)
        if leaf:
            pv = o["val"]
        elif self.owned:
            pv = None          # replacing a sub-fiber of an owned tree bypasses the tensor; only move the coordinate
            if coord is None:
                return ("skipped", {})
        else:
            pv = build.nested_fiber([], self.d - lvl - 1, self.shape[lvl + 1:], self.default)
        if coord is None:
            newvalue = pv
        elif m == 3:
            newvalue = CoordPayload(coord, None)
        else:
            newvalue = CoordPayload(coord, pv)
        order_ok = True
        if coord is not None and in_range:
            if npos > 0 and coord <= f.coords[npos - 1]:
                order_ok = False
            if npos + 1 < n and coord >= f.coords[npos + 1]:
                order_ok = False
        before = observe.snap(self.root)
        try:
            f[pos] = newvalue
        except IndexError as e:
            if in_range:
                raise Violation("setitem-rejected", f"f[{pos}] with {n} elements raised IndexError")
            return self._rejected(before, f"f[{pos}]", e, order=False)
        except CoordinateError as e:
            if order_ok and in_range:
                raise Violation("setitem-rejected", f"f[{pos}]=CoordPayload({coord},..) raised CoordinateError although "
                                f"{coord} fits between its neighbours in {f.coords}")
            return self._rejected(before, f"f[{pos}]=CoordPayload({coord},..)", e)
        return ("ok", {"negative": pos < 0, "illegal-accepted": not (order_ok and in_range)})

    def op_insert(self, o):
        """the deprecated but public coordinate mutators: insertOrLookup (any coordinate) and insert (absent
        coordinates only -- what insert does with a stored coordinate is not documented)"""
        if o["mode"] // 2 % 3 == 2 and self.owned and self.d >= 2:
            # insertOrLookup(c) without a value on an interior fiber of a tensor: the element it creates is a
            # sub-fiber (absent coordinates only: what the method registers for a STORED coordinate of an interior
            # fiber is a quirk of this deprecated method that no listed property speaks about)
            f, lvl = self.target(o["path"], max_level=self.d - 2)
            c = o["sel"][0] % self.shape[lvl]
            if c in f.coords or lvl >= self.d - 1:
                return ("skipped", {})
            got = f.insertOrLookup(c)
            if c not in f.coords or got is not f.payloads[f.coords.index(c)] or not isinstance(got, Fiber):
                raise Violation("insertOrLookup", f"insertOrLookup({c}) on an interior fiber did not return the sub-fiber "
                                f"stored at {c}")
            return ("ok", {"present": False, "interior": True})
        f, lvl = self.target(o["path"] + [0, 0, 0])
        if lvl < self.d - 1:
            return ("skipped", {})
        c = o["sel"][0] % self.shape[lvl]
        present = c in f.coords
        held = f.payloads[f.coords.index(c)] if present else None
        if o["mode"] % 2 == 0 or present:
            got = f.insertOrLookup(c, o["val"])
            if present and got is not held:
                raise Violation("insertOrLookup", f"insertOrLookup({c}) of a stored coordinate did not return its payload")
            if c not in f.coords or got is not f.payloads[f.coords.index(c)]:
                raise Violation("insertOrLookup", f"insertOrLookup({c}) did not return the payload stored at {c}")
        else:
            f.insert(c, o["val"])
        return ("ok", {"present": present})

    def target_path(self, path):
        """like target() down to a leaf fiber, also returning the coordinates on the way"""
        f, lvl, prefix = self.root, 0, []
        for s in list(path) + [0, 0, 0]:
            if lvl >= self.d - 1 or not f.payloads:
                break
            j = s % len(f.payloads)
            prefix.append(f.coords[j])
            f = f.payloads[j]
            lvl += 1
        return f, lvl, tuple(prefix)

    def op_elem_assign(self, o):
        """element <<= element: both sides are whole elements taken out of fibers by position (f[pos])"""
        f, lvl, prefix = self.target_path(o["path"])
        if lvl < self.d - 1 or not f.coords:
            return ("skipped", {})
        src_f = self.leaf_fiber_from(o.get("other", []), lvl) if o["mode"] % 2 else f
        if not src_f.coords:
            return ("skipped", {})
        pos, spos = o["sel"][0] % len(f.coords), o["sel"][1] % len(src_f.coords)
        dst, src = f[pos], src_f[spos]
        value = Payload.get(src.payload)
        dst <<= src
        return ("ok", {"point": prefix + (f.coords[pos],), "value": value,
                       "src_point": (prefix + (src_f.coords[spos],)) if src_f is f else None})

    def op_fiber_arith(self, o):
        if o["mode"] // 4 % 2 and self.d >= 2 and (self.owned or self.d == 2) and "src" in o:
            # in-place arithmetic of a fiber that has fibers below it, with a same-depth tree on the right
            # (f += g is a nested populate, f *= g keeps the intersection and clears the rest)
            f, lvl = self.target(o["path"], max_level=self.d - 2)
            d = self.d - lvl
            if not self.owned and lvl > 0:
                return ("skipped", {})
            tree = cut_tree(o["src"], self.shape[lvl:], d)
            spec = {"rank_ids": self.spec["rank_ids"][lvl:], "shape": self.shape[lvl:], "default": self.default,
                    "tree": tree}
            g = build.build_tensor(spec, "ref").getRoot() if (o["mode"] // 8 % 2 or d > 2) else build.build_fiber(spec)
            gsnap = observe.snap(g)
            if o["mode"] % 2:
                f += g
            else:
                f *= g
            if observe.snap(g) != gsnap:
                raise Violation("operand-modified", f"in-place arithmetic on an interior fiber changed its right operand")
            return ("ok", {"interior": True, "level": lvl, "op": "+=" if o["mode"] % 2 else "*="})
        f, lvl = self.target(o["path"] + [0, 0, 0])
        if lvl < self.d - 1:
            return ("skipped", {})
        m = o["mode"] % 4
        if m == 0:
            f += o["val"]
        elif m == 1:
            f *= o["val"]
        else:
            g = self.leaf_fiber_from(o["other"], lvl)
            if m == 2:
                f += g
            else:
                f *= g
        return ("ok", {})

    def assign_source(self, o, lvl):
        """a fiber tree of the same depth as the target, owned by another tensor or unowned"""
        d = self.d - lvl
        tree = cut_tree(o["src"], self.shape[lvl:], d)
        spec = {"rank_ids": self.spec["rank_ids"][lvl:], "shape": self.shape[lvl:], "default": self.default,
                "tree": tree}
        if o["mode"] % 2 == 0:
            return build.build_tensor(spec, "ref").getRoot(), tree
        return build.build_fiber(spec), tree

    def op_assign(self, o):
        f, lvl = self.target(o["path"])
        if not self.owned and lvl < self.d - 1:
            # an unowned interior fiber takes over `Fiber` (the class) as its default from a non-empty
            # source and then no longer knows the default of the level below: interior fiber
            # assignment is exercised on tensors only (DESIGN section 5)
            f, lvl = self.target(o["path"] + [0, 0, 0])
            if lvl < self.d - 1:
                return ("skipped", {})
        src, tree = self.assign_source(o, lvl)
        f <<= src
        got = observe.content_of(f, self.d - lvl, self.default)
        want = model.content_of_tree(tree, self.d - lvl, self.default)
        if got != want:
            raise Violation("assign-content", f"fiber assignment stored {got}, source content is {want}")
        return ("ok", {"level": lvl, "empty-src": not tree})

    def op_clear(self, o):
        f, lvl = self.target(o["path"])
        f.clear()
        return ("ok", {"level": lvl})

    def op_denseref(self, o):
        f, lvl = self.target(o["path"])
        m = o["mode"] % 4
        s = o["sel"][0] % (self.shape[lvl] + 1)
        e = s + o["sel"][1] % (self.shape[lvl] + 1 - s)
        if m == 0:
            it = f.iterShapeRef()
        elif m == 1:
            it = f.iterRangeShapeRef(s, e, 1 + o["sel"][2] % 2)
        elif m == 2:
            it = f.iterActiveShapeRef()
        else:
            it = Fiber.coiterShapeRef([f])
        for c, p in it:
            if lvl == self.d - 1 and o["sel"][3] % 3 == 0 and m != 3:
                p += o["val"]
        return ("ok", {})

    def op_updateCoords(self, o):
        f, lvl = self.target(o["path"])
        m = o["mode"] % 3
        S = self.shape[lvl]
        if not f.coords:
            return ("skipped", {})
        if m == 0:
            func, new_shape = (lambda i, c, p: S - 1 - c), S           # reversing
        elif m == 1:
            k = 1 + o["sel"][0] % 3
            func, new_shape = (lambda i, c, p: c + k), S + k           # shift
        else:
            perm = [x for x in o["perm"] if x < S]
            func, new_shape = (lambda i, c, p: perm[c] if 0 <= c < len(perm) else c), S
        f.updateCoords(func, new_shape=new_shape)
        if m == 1:
            self.shape[lvl] = new_shape
        return ("ok", {"resort": m != 1})

    def op_updatePayloads(self, o):
        f, lvl = self.target(o["path"])
        depth = (o["sel"][0] % (self.d - lvl))
        tgt_lvl = lvl + depth
        v = o["val"]
        if tgt_lvl == self.d - 1:
            # (the function may hand back a box or a plain value: "-> payload", as append / __setitem__ take either)
            func = [(lambda i, c, p: p + v), (lambda i, c, p: p * v), (lambda i, c, p: Payload.get(p) + v),
                    (lambda i, c, p: Payload.get(p) * v)][o["mode"] % 4]
        else:
            func = lambda i, c, p: p      # fiber -> same fiber (structure-preserving; C09 covers real transforms)
        f.updatePayloads(func, depth=depth)
        return ("ok", {})

    # -- populate with a body plan (shared with C05)
    def op_populate(self, o):
        f, lvl = self.target(o["path"])
        d = self.d - lvl
        tree = cut_tree(o["src"], self.shape[lvl:], d)
        spec = {"rank_ids": self.spec["rank_ids"][lvl:], "shape": self.shape[lvl:], "default": self.default,
                "tree": tree}
        src = build.build_tensor(spec, "ref").getRoot() if o["mode"] % 2 == 0 else build.build_fiber(spec)
        plan = Plan(o["plan"], o["descend"], o["val"], self.default)
        plan.shape = list(self.shape[lvl:])
        stats = {"offered": 0, "written": 0, "removed": 0}
        run_populate(f, src, plan, d, (), stats, on_yield=None)
        return ("ok", stats)


class Plan:
    """Deterministic loop body: what to do with the reference offered at a point."""

    def __init__(self, leaf_actions, descend, val, default):
        self.leaf_actions, self.descend_flags, self.val, self.default = leaf_actions, descend, val, default

    def key(self, pt):
        return sum((c + 1) * (3 + 2 * i) for i, c in enumerate(pt))

    def action(self, pt):
        return self.leaf_actions[self.key(pt) % len(self.leaf_actions)]

    def descend(self, pt):
        """True / "descend": nested populate; False / "skip": leave the offered sub-fiber alone;
        "reserve": the body creates structure below the offered sub-fiber through getPayloadRef
        without writing a non-default value"""
        f = self.descend_flags[self.key(pt) % len(self.descend_flags)]
        if f is True:
            return "descend"
        if f is False:
            return "skip"
        return f

    def value(self, pt):
        v = self.val + self.key(pt) % 3
        return v if v != self.default else v + 1


def run_populate(z, a, plan, d, prefix, stats, on_yield=None, writes=None, offered=None):
    """for c, (z_ref, a_val) in z << a: <body according to plan>, nested to depth d.

    `writes` collects {point: ('set', v) | ('acc', v)} in execution order for the model."""
    for c, (z_ref, a_val) in z << a:
        pt = prefix + (c,)
        stats["offered"] += 1
        if offered is not None:
            offered.append((pt, z_ref, a_val))
        if on_yield is not None:
            on_yield(pt, z_ref, a_val, d)
        if d == 1:
            act = plan.action(pt)
            v = plan.value(pt)
            if act == "assign":
                z_ref <<= v
            elif act == "acc":
                z_ref += v
            elif act == "default":
                z_ref <<= plan.default
            elif act == "writethendefault":
                z_ref <<= v
                z_ref <<= plan.default
            if writes is not None and act != "leave":
                writes.append((pt, act, v))
            if act in ("assign", "acc"):
                stats["written"] += 1
        else:
            what = plan.descend(pt)
            if what == "descend":
                run_populate(z_ref, a_val, plan, d - 1, pt, stats, on_yield, writes, offered)
            elif what == "reserve":
                # reserve a path below the offered sub-fiber (a prefix, or a full point left at the default)
                shp = getattr(plan, "shape", None)
                below = tuple((plan.key(pt) + i) % (shp[len(pt) + i] if shp else 2) for i in range(d - 1))
                n = 1 + plan.key(pt) % (d - 1)
                z_ref.getPayloadRef(*below[:n])       # (never written: an existing value there stays)
                stats["reserved"] = stats.get("reserved", 0) + 1
                if writes is not None:
                    writes.append((pt, "reserve", below[:n]))
