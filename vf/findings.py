"""Known findings: /verif/known_findings.txt (committed, never written at run time).

Line formats::

    open: property=C02 id=<fid> <what fails>
    fixed: property=C09 <commit> id=<fid> <what failed>

An *open* entry lets the property module normalise / exclude exactly the
deviation its classifier recognises (and count it); the check prints
``KNOWN-FINDING: property=<id> <what fails>`` when the pinned reproducer of that
finding still fails.  A *fixed* entry suppresses nothing: the pinned reproducer
must pass and the classifier is off, so a recurrence is a VIOLATION.
"""

import os
import re
from .core import Violation

VERIF = os.path.dirname(os.path.dirname(os.path.abspath(__file__)))
_PATH = os.path.join(VERIF, "known_findings.txt")
_cache = None


def load():
    global _cache
    if _cache is not None:
        return _cache
    out = []
    if os.path.exists(_PATH):
        for line in open(_PATH):
            line = line.strip()
            if not line or line.startswith("#"):
                continue
            m = re.match(r"^(open|fixed):\s+property=(C\d+)\s+(.*)$", line)
            if not m:
                continue
            status, pid, rest = m.groups()
            fid = re.search(r"\bid=(\S+)", rest)
            out.append({"status": status, "property": pid, "id": fid.group(1) if fid else None,
                        "text": rest})
    _cache = out
    return out


def is_open(pid, fid):
    # development aid: VERIF_OPEN_FINDINGS=id1,id2 treats those ids as open
    if fid in [x for x in os.environ.get("VERIF_OPEN_FINDINGS", "").split(",") if x]:
        return True
    return any(e["status"] == "open" and e["property"] == pid and e["id"] == fid for e in load())


def entries(pid):
    return [e for e in load() if e["property"] == pid]


def run_pinned(pid, mod):
    """Run the pinned reproducers (mod.PINNED: {fid: fn -> None | str}).

    Returns (lines to print, failure | None)."""
    pinned = getattr(mod, "PINNED", {})
    lines = []
    failure = None
    for e in entries(pid):
        fn = pinned.get(e["id"])
        if fn is None:
            if e["status"] == "open":
                lines.append(f"KNOWN-FINDING: property={pid} {e['text']}")
            continue
        try:
            res = fn()
        except Violation as v:
            res = f"[{v.kind}] {v.msg}"
        except Exception as ex:
            # a reproducer that crashes INSIDE the library reproduces the defect; an exception out of the
            # reproducer's own code is a harness error (exit 2), not a finding
            import os
            import traceback
            repo = os.path.join(os.environ.get("VERIF_REPO", "/repo"), "fibertree")
            tb = traceback.extract_tb(ex.__traceback__)
            if not tb or not os.path.abspath(tb[-1].filename).startswith(os.path.abspath(repo)):
                raise
            res = f"{type(ex).__name__}: {ex}"
        if e["status"] == "open":
            if res:
                lines.append(f"KNOWN-FINDING: property={pid} {e['text']}")
        else:
            if res and failure is None:
                failure = {"part": "pinned", "case": {"finding": e["id"]}, "kind": "regression",
                           "msg": f"fixed finding {e['id']} reproduces again: {res}", "data": {}}
    return lines, failure
