"""Observers of real fibertree objects.  Only documented public attributes are
read (Fiber.coords / Fiber.payloads, Rank.getFibers(), Tensor.ranks)."""

from fibertree import CoordPayload, Fiber, Payload, Tensor
from fibertree.core.rank import Rank
from fibertree.core.rank_attrs import RankAttrs

from .core import Violation


def snap(p):
    """Exact nested snapshot of a payload (type tags make an unboxed or doubly
    boxed payload visible)."""
    if isinstance(p, Fiber):
        if p.isLazy():
            return ("LAZY",)
        return ("F", tuple(p.coords), tuple(snap(x) for x in p.payloads))
    if isinstance(p, Payload):
        v = p.value
        if isinstance(v, (Payload, Fiber)):
            return ("P", snap(v))
        if isinstance(v, tuple):
            return ("P", tuple(snap(x) if isinstance(x, (Payload, Fiber)) else ("R", repr(x)) for x in v))
        return ("P", type(v).__name__, v)
    return ("RAW", type(p).__name__, repr(p))


def snap_tensor(t):
    return snap(t.getRoot())


def ids(p, acc=None):
    """ids of every mutable object reachable from a fiber/tensor: fibers,
    payload boxes, ranks, rank attributes."""
    if acc is None:
        acc = set()
    if isinstance(p, Tensor):
        for r in p.ranks:
            acc.add(id(r))
            acc.add(id(r.getAttrs()))
            for f in r.getFibers():
                ids(f, acc)
        ids(p._root if not p.ranks else p.getRoot(), acc)
        return acc
    if isinstance(p, Fiber):
        if id(p) in acc:
            return acc
        acc.add(id(p))
        acc.add(id(p.coords))
        acc.add(id(p.payloads))
        if p.getOwner() is None:
            acc.add(id(p._rank_attrs))
        for x in p.payloads:
            ids(x, acc)
        return acc
    if isinstance(p, Payload):
        acc.add(id(p))
        v = p.value
        if isinstance(v, (Fiber, Payload)):
            ids(v, acc)
        elif isinstance(v, tuple):
            for x in v:
                if isinstance(x, (Fiber, Payload)):
                    ids(x, acc)
    return acc


def wellformed(root, depth=None, where="tree"):
    """C01's predicate.  Returns the leaf depth (or None for an all-empty tree)
    and raises Violation otherwise."""
    leaf_depths = set()

    def rec(f, lvl):
        if not isinstance(f, Fiber):
            raise Violation("malformed", f"{where}: interior payload at level {lvl} is {type(f).__name__}, not a Fiber")
        if f.isLazy():
            raise Violation("malformed", f"{where}: lazy fiber stored in tree at level {lvl}")
        if len(f.coords) != len(f.payloads):
            raise Violation("malformed", f"{where}: level {lvl}: {len(f.coords)} coords vs {len(f.payloads)} payloads")
        for a, b in zip(f.coords, f.coords[1:]):
            if not a < b:
                raise Violation("malformed", f"{where}: level {lvl}: coordinates not strictly increasing: {f.coords}")
        kinds = set()
        for p in f.payloads:
            if isinstance(p, Fiber):
                kinds.add("F")
                rec(p, lvl + 1)
            elif isinstance(p, Payload):
                kinds.add("P")
                v = p.value
                if isinstance(v, (Payload, Fiber, CoordPayload)):
                    raise Violation("malformed", f"{where}: level {lvl}: leaf box holds a {type(v).__name__}")
                leaf_depths.add(lvl)
            else:
                raise Violation("malformed", f"{where}: level {lvl}: unboxed payload {p!r} ({type(p).__name__})")
        if len(kinds) > 1:
            raise Violation("malformed", f"{where}: level {lvl}: fiber mixes leaf and fiber payloads")

    rec(root, 0)
    if len(leaf_depths) > 1:
        raise Violation("malformed", f"{where}: leaves at different depths {sorted(leaf_depths)}")
    if depth is not None and leaf_depths and leaf_depths != {depth - 1}:
        raise Violation("malformed", f"{where}: leaves at depth {sorted(leaf_depths)}, tensor has {depth} ranks")
    return next(iter(leaf_depths), None)


def walk_levels(root, nlevels):
    """Raw depth-first walk: list (per level) of the fibers found there."""
    levels = [[] for _ in range(nlevels)]

    def rec(f, lvl):
        if lvl >= nlevels:
            raise Violation("rank-bookkeeping", f"fiber found at depth {lvl} but tensor has {nlevels} ranks")
        levels[lvl].append(f)
        for p in f.payloads:
            if isinstance(p, Fiber):
                rec(p, lvl + 1)

    rec(root, 0)
    return levels


def rank_consistency(t, where="tensor"):
    """C02's predicate."""
    if not t.ranks:
        return
    root = t._root
    if not isinstance(root, Fiber):
        raise Violation("rank-bookkeeping", f"{where}: root is {type(root).__name__}")
    r0 = t.ranks[0].getFibers()
    if len(r0) != 1 or r0[0] is not root:
        raise Violation("rank-bookkeeping", f"{where}: first rank lists {len(r0)} fibers / root not its single fiber")
    for i, r in enumerate(t.ranks):
        nxt = t.ranks[i + 1] if i + 1 < len(t.ranks) else None
        if r.getNextRank() is not nxt:
            raise Violation("rank-bookkeeping", f"{where}: rank {i} not chained to rank {i+1}")
    levels = walk_levels(root, len(t.ranks))
    for i, r in enumerate(t.ranks):
        listed = [id(f) for f in r.getFibers()]
        found = [id(f) for f in levels[i]]
        if sorted(listed) != sorted(found):
            stale = len([x for x in listed if x not in set(found)])
            missing = len([x for x in found if x not in set(listed)])
            dup = len(listed) - len(set(listed))
            raise Violation("rank-bookkeeping",
                            f"{where}: rank {i} ({r.getId()}) lists {len(listed)} fibers, tree has {len(found)} "
                            f"(stale={stale} missing={missing} dup={dup})",
                            data={"rank": i, "stale": stale, "missing": missing, "dup": dup})
        for f in levels[i]:
            if f.getOwner() is not r:
                raise Violation("rank-bookkeeping", f"{where}: fiber at depth {i} does not report rank {i} as owner")


def content_of(f, depth, default):
    """{point: value} of a real fiber tree (non-default leaves)."""
    out = {}

    def rec(f, lvl, prefix):
        if not isinstance(f, Fiber):
            raise Violation("malformed", f"expected Fiber at level {lvl}, got {type(f).__name__}")
        for c, p in zip(f.coords, f.payloads):
            if lvl == depth - 1:
                if isinstance(p, Fiber):
                    raise Violation("malformed", f"fiber payload at leaf level {lvl}")
                v = Payload.get(p)
                if v != default:
                    out[prefix + (c,)] = v
            else:
                rec(p, lvl + 1, prefix + (c,))

    rec(f, 0, ())
    return out


def tensor_content(t):
    if not t.ranks:
        return {(): Payload.get(t._root)}
    return content_of(t.getRoot(), len(t.ranks), Payload.get(t.getDefault()))


def tree_of(f):
    """Real fiber -> TreeSpec-style nested list (raw, keeps explicit defaults)."""
    out = []
    for c, p in zip(f.coords, f.payloads):
        if isinstance(p, Fiber):
            out.append([c, tree_of(p)])
        else:
            out.append([c, Payload.get(p)])
    return out


def rank_lists(t):
    return [[id(f) for f in r.getFibers()] for r in t.ranks]
