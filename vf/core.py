"""Core types shared by the runner and the property modules."""

import hashlib
import json


class Violation(Exception):
    """A property violation found by an oracle."""

    def __init__(self, kind, msg, data=None):
        super().__init__(f"[{kind}] {msg}")
        self.kind = kind
        self.msg = msg
        self.data = data or {}


class HarnessError(Exception):
    pass


def jdump(x):
    return json.dumps(x, sort_keys=True, default=_jdefault)


def _jdefault(o):
    if isinstance(o, tuple):
        return list(o)
    if isinstance(o, (set, frozenset)):
        return sorted(o)
    return repr(o)


def case_hash(case):
    return hashlib.sha1(jdump(case).encode()).hexdigest()


class Part:
    """One generated-input check of a property.

    strategy : Hypothesis strategy producing a JSON-able *case*
    check    : check(case, rec) -> None, raises Violation
    n_quick / n_thorough : case counts (thorough is per shard, 16 shards)
    enumerate: optional callable(tier) -> iterable of cases (finite sub-domain,
               run completely instead of / in addition to the strategy)
    """

    def __init__(self, name, strategy, check, n_quick, n_thorough=None, enumerate=None,
                 exhaustive_note=None):
        self.name = name
        self.strategy = strategy
        self.check = check
        self.n_quick = n_quick
        self.n_thorough = n_thorough if n_thorough is not None else n_quick * 10
        self.enumerate = enumerate
        self.exhaustive_note = exhaustive_note


class Recorder:
    """Per-run statistics: evaluations, classes, non-trivial distinct cases,
    samples, known-finding hits."""

    MAX_SAMPLES = 6

    def __init__(self):
        self.evaluations = 0
        self.classes = {}
        self.nontrivial_hashes = set()
        self.samples = []
        self._sample_classes = set()
        self.known_hits = {}
        self.excluded = 0
        self._cur = None
        self._cur_nt = False
        self._cur_classes = None

    # -- per case
    def begin(self, part, case):
        self._cur = (part, case)
        self._cur_nt = False
        self._cur_classes = []

    def cls(self, name, cond=True):
        if cond:
            self._cur_classes.append(name)
        return cond

    def nontrivial(self, cond=True):
        if cond:
            self._cur_nt = True
        return cond

    def known(self, fid, detail=""):
        self.known_hits[fid] = self.known_hits.get(fid, 0) + 1

    def exclude(self):
        self.excluded += 1

    def end(self):
        part, case = self._cur
        self.evaluations += 1
        for c in set(self._cur_classes):
            k = f"{part}:{c}"
            self.classes[k] = self.classes.get(k, 0) + 1
        if self._cur_nt:
            h = case_hash([part, case])
            if h not in self.nontrivial_hashes:
                self.nontrivial_hashes.add(h)
                key = (part, tuple(sorted(set(self._cur_classes)))[:3])
                if len(self.samples) < self.MAX_SAMPLES and key not in self._sample_classes:
                    self._sample_classes.add(key)
                    self.samples.append({"part": part, "case": json.loads(jdump(case)),
                                         "classes": sorted(set(self._cur_classes))})
        self._cur = None

    # -- merging shards
    def export(self):
        return {"evaluations": self.evaluations, "classes": self.classes,
                "nt": sorted(self.nontrivial_hashes), "samples": self.samples,
                "known_hits": self.known_hits, "excluded": self.excluded}

    def merge(self, d):
        self.evaluations += d["evaluations"]
        for k, v in d["classes"].items():
            self.classes[k] = self.classes.get(k, 0) + v
        self.nontrivial_hashes.update(d["nt"])
        for s in d["samples"]:
            if len(self.samples) < self.MAX_SAMPLES:
                self.samples.append(s)
        for k, v in d["known_hits"].items():
            self.known_hits[k] = self.known_hits.get(k, 0) + v
        self.excluded += d["excluded"]
