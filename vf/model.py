"""Reference model -- pure Python, imports nothing from fibertree.

A *TreeSpec* is a JSON-able dict::

    {"rank_ids": ["M", "K"], "shape": [4, 5], "default": 0,
     "tree": [[coord, child], ...]}          # ascending coords

where ``child`` is a leaf value (number) at the last level and a nested list of
``[coord, child]`` pairs above it.  Leaves equal to the default ("explicit
defaults") and empty nested lists ("empty sub-fibers") are legal and are
generated on purpose.

``content(spec)`` is *the* semantic value of a tree: ``{point tuple: value}``
with default-valued leaves dropped.
"""

import itertools


def depth(spec):
    return len(spec["rank_ids"])


def content_of_tree(tree, d, default, prefix=()):
    """tree (list of [c, child]) with d levels -> {point: value}."""
    out = {}
    for c, child in tree:
        c = tuplify(c)
        if d == 1:
            if child != default:
                out[prefix + (c,)] = child
        else:
            out.update(content_of_tree(child, d - 1, default, prefix + (c,)))
    return out


def tuplify(c):
    """JSON turns tuple coordinates into lists: normalise back."""
    if isinstance(c, list):
        return tuple(tuplify(x) for x in c)
    return c


def content(spec):
    return content_of_tree(spec["tree"], depth(spec), spec["default"])


def tree_from_content(cont, d):
    """Canonical tree (no explicit defaults / empty sub-fibers) of a content."""
    if d == 1:
        return [[p[0], v] for p, v in sorted(cont.items())]
    groups = {}
    for p, v in cont.items():
        groups.setdefault(p[0], {})[p[1:]] = v
    return [[c, tree_from_content(sub, d - 1)] for c, sub in sorted(groups.items())]


def has_explicit_default(tree, d, default):
    for _, child in tree:
        if d == 1:
            if child == default:
                return True
        elif has_explicit_default(child, d - 1, default):
            return True
    return False


def has_empty_subfiber(tree, d, default=None):
    """An interior child that is an empty list (structurally empty)."""
    if d == 1:
        return False
    for _, child in tree:
        if len(child) == 0 or has_empty_subfiber(child, d - 1):
            return True
    return False


def tree_is_empty(tree, d, default):
    """Library notion of emptiness: no non-default leaf below."""
    return len(content_of_tree(tree, d, default)) == 0


def count_leaves(tree, d):
    if d == 1:
        return len(tree)
    return sum(count_leaves(ch, d - 1) for _, ch in tree)


def nfibers_at(tree, d, level):
    """number of fibers at ``level`` (0 = root)."""
    if level == 0:
        return 1
    return sum(nfibers_at(ch, d - 1, level - 1) for _, ch in tree)


def presented(tree, d, default):
    """Elements a *compressed* fiber presents to iteration: the elements whose
    payload is non-empty (non-default leaf / sub-tree with some non-default
    leaf), in order."""
    out = []
    for c, child in tree:
        if d == 1:
            if child != default:
                out.append((tuplify(c), child))
        elif not tree_is_empty(child, d - 1, default):
            out.append((tuplify(c), child))
    return out


def dense(cont, shape, default=0):
    """content -> nest of lists of the given shape."""
    def rec(prefix, dims):
        if not dims:
            return cont.get(prefix, default)
        return [rec(prefix + (i,), dims[1:]) for i in range(dims[0])]
    return rec((), list(shape))


def nest_content(nest, default=0, prefix=()):
    out = {}
    for i, x in enumerate(nest):
        if isinstance(x, list):
            out.update(nest_content(x, default, prefix + (i,)))
        elif x != default:
            out[prefix + (i,)] = x
    return out


def nest_shape(nest):
    s = []
    x = nest
    while isinstance(x, list):
        s.append(len(x))
        if not x:
            break
        x = x[0]
    return s


def all_points(shape):
    return itertools.product(*[range(s) for s in shape])
