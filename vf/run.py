"""Runner: ./check Cxx --tier quick|thorough [--replay file] [--collect]

Exit codes: 0 property held on everything explored (KNOWN-FINDING lines allowed)
            1 VIOLATION property=<id> replay=<path>
            2 harness error (never a violation)
"""

import argparse
import importlib
import json
import os
import sys
import time
import traceback

VERIF = os.path.dirname(os.path.dirname(os.path.abspath(__file__)))
REPO = os.environ.get("VERIF_REPO", "/repo")


def _bootstrap():
    # deterministic hashing, no bytecode litter in /repo, hooks guard on
    if os.environ.get("PYTHONHASHSEED") != "0":
        env = dict(os.environ, PYTHONHASHSEED="0", PYTHONDONTWRITEBYTECODE="1",
                   FIBERTREE_PROJECT_FIBERTREE_VERIF="1")
        os.execve(sys.executable, [sys.executable] + sys.argv, env)
    sys.path.insert(0, REPO)
    sys.path.insert(0, VERIF)
    deps = os.path.join(VERIF, ".deps")
    if os.path.isdir(deps):
        sys.path.append(deps)
    import warnings
    warnings.simplefilter("ignore")
    import logging
    logging.disable(logging.CRITICAL)
    try:
        import fibertree
    except Exception:
        traceback.print_exc()
        print("HARNESS-ERROR cannot import fibertree from", REPO)
        sys.exit(2)
    if not os.path.abspath(fibertree.__file__).startswith(os.path.abspath(REPO) + os.sep):
        print("HARNESS-ERROR fibertree imported from", fibertree.__file__, "not", REPO)
        sys.exit(2)


def _lib_frame(tb):
    """innermost traceback frame that lies in the library; None if the
    exception was raised by harness code not called from the library."""
    frames = traceback.extract_tb(tb)
    if not frames:
        return None
    last = frames[-1]
    root = os.path.join(os.path.abspath(REPO), "fibertree") + os.sep
    if os.path.abspath(last.filename).startswith(root):
        return f"{os.path.relpath(last.filename, REPO)}:{last.name}"
    return None


def run_case(part, case, rec):
    """Run one case; convert library crashes into Violations."""
    from vf.core import Violation
    from fibertree import Metrics
    rec.begin(part.name, case)
    try:
        part.check(case, rec)
    except Violation:
        raise
    except (KeyboardInterrupt, MemoryError):
        raise
    except BaseException as e:   # incl. SystemExit raised by the library
        if type(e).__module__.startswith("hypothesis"):
            raise
        fr = _lib_frame(e.__traceback__)
        if fr is None:
            raise
        raise Violation("crash", f"library raised {type(e).__name__}: {e} at {fr}",
                        data={"exc": type(e).__name__, "frame": fr}) from e
    finally:
        if Metrics.isCollecting():
            try:
                Metrics.endCollect()
            except Exception:
                Metrics.collecting = False
    rec.end()


def run_parts(mod, tier, seed, shard=0, nshards=1, collect=False):
    """Run every part of a property module.  Returns (recorder export, failure|None)."""
    from hypothesis import HealthCheck, Phase, given, settings
    from hypothesis import seed as hseed
    from vf.core import Recorder, Violation

    rec = Recorder()
    failure = None
    for pi, part in enumerate(mod.PARTS):
        # finite sub-domains: enumerated completely (sharded round-robin)
        if part.enumerate is not None:
            for i, case in enumerate(part.enumerate(tier)):
                if i % nshards != shard:
                    continue
                try:
                    run_case(part, case, rec)
                except Violation as v:
                    failure = {"part": part.name, "case": json.loads(_jd(case)), "kind": v.kind,
                               "msg": v.msg, "data": v.data}
                    break
            if failure:
                break
        if part.strategy is None:
            continue
        n = part.n_quick if tier == "quick" else part.n_thorough
        if n <= 0:
            continue
        last = {}

        def make_body(part, last):
            def body(case):
                try:
                    run_case(part, case, rec)
                except Violation as v:
                    last["case"] = case
                    last["v"] = v
                    raise
            return body

        body = make_body(part, last)

        s = (seed * 1000003 + shard * 7919 + pi * 101) & 0x7FFFFFFF
        phases = [Phase.generate, Phase.shrink]
        test = settings(max_examples=n, database=None, deadline=None, derandomize=False,
                        report_multiple_bugs=False, print_blob=False, phases=phases,
                        suppress_health_check=[HealthCheck.too_slow, HealthCheck.data_too_large,
                                               HealthCheck.filter_too_much])(
            hseed(s)(given(part.strategy)(body)))
        try:
            test()
        except Violation as v:
            c = last.get("case")
            failure = {"part": part.name, "case": json.loads(_jd(c)), "kind": v.kind, "msg": v.msg,
                       "data": v.data}
            break
        except Exception as e:
            # Hypothesis could not replay a failure identically (FlakyFailure): the code under test keeps state
            # between cases.  The violation it did see is real; report it with the case it was seen on (replaying
            # that case alone may pass -- the message says so)
            from hypothesis.errors import Flaky
            if isinstance(e, Flaky) and "v" in last:
                v = last["v"]
                failure = {"part": part.name, "case": json.loads(_jd(last["case"])), "kind": v.kind,
                           "msg": v.msg + "  [seen during the search but not on an identical replay: the library "
                                          "carries state from one case to the next]", "data": v.data}
                break
            raise
    return rec.export(), failure


def _jd(x):
    from vf.core import jdump
    return jdump(x)


def _shard_entry(args):
    modname, tier, seed, shard, nshards = args
    try:
        mod = importlib.import_module(modname)
        return ("ok",) + run_parts(mod, tier, seed, shard, nshards)
    except BaseException:
        return ("err", traceback.format_exc(), None)


def write_evidence(pid, mod, tier, seed, rec, wall, nviol, extra=None):
    cov = {
        "evaluations": rec.evaluations,
        "distinct_nontrivial": len(rec.nontrivial_hashes),
        "rule": mod.RULE,
        "samples": rec.samples,
        "classes": dict(sorted(rec.classes.items())),
        "known_findings_hit": rec.known_hits,
        "excluded_cases": rec.excluded,
        "parts": [p.name for p in mod.PARTS],
        "exhaustive": False,
    }
    ex = [p.exhaustive_note for p in mod.PARTS if p.enumerate is not None and p.exhaustive_note]
    if ex:
        cov["exhaustive_subdomains"] = ex
    if extra:
        cov.update(extra)
    ev = {
        "property_id": pid, "tier": tier, "seed": seed, "level": "exploration",
        "coverage": cov,
        "assumptions": getattr(mod, "ASSUMPTIONS", []),
        "wall_s": round(wall, 2), "violations": nviol,
    }
    if os.environ.get("VERIF_NO_EVIDENCE"):
        return
    os.makedirs(os.path.join(VERIF, "evidence"), exist_ok=True)
    path = os.path.join(VERIF, "evidence", f"{pid}.json")
    with open(path + ".tmp", "w") as f:
        json.dump(ev, f, indent=1, sort_keys=True, default=repr)
    os.replace(path + ".tmp", path)


def main():
    _bootstrap()
    ap = argparse.ArgumentParser()
    ap.add_argument("prop")
    ap.add_argument("--tier", default=os.environ.get("VERIF_TIER", "quick"), choices=["quick", "thorough"])
    ap.add_argument("--replay")
    ap.add_argument("--jobs", type=int, default=None)
    args = ap.parse_args()
    pid = args.prop.upper()
    try:
        seed = int(os.environ.get("VERIF_SEED", "1"))
    except ValueError:
        seed = 1
    modname = f"vf.props.{pid.lower()}"
    t0 = time.time()
    try:
        mod = importlib.import_module(modname)
        from vf import findings
        from vf.core import Recorder, Violation

        if args.replay:
            with open(args.replay) as f:
                rp = json.load(f)
            if rp["part"] == "pinned":
                res = mod.PINNED[rp["case"]["finding"]]()
                if res:
                    print(f"replay: {res}")
                    print(f"VIOLATION property={pid} replay={args.replay}")
                    return 1
                print("replay: case passes")
                return 0
            part = {p.name: p for p in mod.PARTS}[rp["part"]]
            rec = Recorder()
            try:
                run_case(part, rp["case"], rec)
            except Violation as v:
                print(f"replay: {v}")
                print(f"VIOLATION property={pid} replay={args.replay}")
                return 1
            print("replay: case passes")
            return 0

        rec = Recorder()
        failure = None
        # pinned reproducers of the known findings (open -> must still fail;
        # fixed -> must pass)
        kf_lines, kf_fail = findings.run_pinned(pid, mod)
        if kf_fail:
            failure = kf_fail
        # regression corpus: shrunk cases of earlier failures (committed under corpus/<id>/)
        cdir = os.path.join(VERIF, "corpus", pid)
        ncorpus = 0
        if failure is None and os.path.isdir(cdir):
            parts = {p.name: p for p in mod.PARTS}
            for fn in sorted(os.listdir(cdir)):
                if not fn.endswith(".json"):
                    continue
                with open(os.path.join(cdir, fn)) as f:
                    rp = json.load(f)
                if rp.get("part") not in parts:
                    continue
                ncorpus += 1
                try:
                    run_case(parts[rp["part"]], rp["case"], rec)
                except Violation as v:
                    failure = {"part": rp["part"], "case": rp["case"], "kind": v.kind, "msg": v.msg, "data": v.data}
                    break
        jobs = args.jobs or (16 if args.tier == "thorough" else getattr(mod, "QUICK_JOBS", 1))
        if failure is None:
            if jobs == 1:
                d, failure = run_parts(mod, args.tier, seed)
                rec.merge(d)
            else:
                import multiprocessing as mp
                ctx = mp.get_context("fork")
                with ctx.Pool(jobs) as pool:
                    res = pool.map(_shard_entry, [(modname, args.tier, seed, k, jobs) for k in range(jobs)])
                for r in res:
                    if r[0] == "err":
                        print(r[1])
                        print(f"HARNESS-ERROR property={pid} shard failed")
                        return 2
                    rec.merge(r[1])
                    if r[2] and failure is None:
                        failure = r[2]
        wall = time.time() - t0
        for line in kf_lines:
            print(line)
        hit_unlisted = [k for k in rec.known_hits if not findings.is_open(pid, k)]
        if hit_unlisted and failure is None:
            failure = {"part": "known-findings", "case": None, "kind": "unlisted-finding",
                       "msg": f"deviation classified as {hit_unlisted} but not listed open in known_findings.json",
                       "data": {}}
        if failure:
            rdir = "replays" if not os.environ.get("VERIF_NO_EVIDENCE") else "replays/scratch"
            os.makedirs(os.path.join(VERIF, rdir), exist_ok=True)
            from vf.core import case_hash
            h = case_hash(failure)[:12]
            rel = os.path.join(rdir, f"{pid}-{h}.json")
            with open(os.path.join(VERIF, rel), "w") as f:
                json.dump({"property": pid, "part": failure["part"], "case": failure["case"],
                           "kind": failure["kind"], "msg": failure["msg"], "seed": seed,
                           "tier": args.tier}, f, indent=1, sort_keys=True, default=repr)
            write_evidence(pid, mod, args.tier, seed, rec, wall, 1,
                           {"first_violation": {"kind": failure["kind"], "msg": failure["msg"][:2000]}})
            print(f"violation: part={failure['part']} [{failure['kind']}] {failure['msg'][:3000]}")
            print(f"VIOLATION property={pid} replay={rel}")
            return 1
        write_evidence(pid, mod, args.tier, seed, rec, wall, 0)
        cw = getattr(mod, "coverage_warnings", None)
        if cw:
            for w in cw(rec):
                print("COVERAGE-WARNING", w)
        print(f"OK property={pid} tier={args.tier} seed={seed} evaluations={rec.evaluations} "
              f"distinct_nontrivial={len(rec.nontrivial_hashes)} known_hits={rec.known_hits} wall={wall:.1f}s")
        return 0
    except SystemExit:
        raise
    except BaseException:
        traceback.print_exc()
        print(f"HARNESS-ERROR property={pid}")
        return 2


def _main_with_tmp():
    """every temporary file of the run (all shards included) lives under one directory that is removed
    when the run ends, whatever happens"""
    import shutil
    import tempfile
    _bootstrap()        # (re-executes the interpreter first, so no directory is left behind by the old one)
    root = tempfile.mkdtemp(prefix="vf-run-")
    tempfile.tempdir = root
    os.environ["TMPDIR"] = root
    try:
        return main()
    finally:
        shutil.rmtree(root, ignore_errors=True)


if __name__ == "__main__":
    sys.exit(_main_with_tmp())
