"""Hypothesis strategies shared by the property modules.  Every generated value
is JSON-able (lists / dicts / numbers / strings)."""

from hypothesis import strategies as st

RANK_NAMES = ["M", "K", "N", "P"]

INT_VALUES = [1, 2, 3, 4, 5, 7, 9, -1, -2, -3, 10]
FLOAT_VALUES = [0.5, 1.5, -2.5, 0.25]   # dyadic: exact in binary


def _pool(default):
    # with a non-zero default, 0 is an ordinary (non-default) value and must be generated
    base = INT_VALUES if default == 0 else [0, 0] + INT_VALUES
    return [v for v in base if v != default]


def values(default=0, floats=False, p_default=0.2):
    """Leaf values; the default itself is drawn with weight ~p_default."""
    pool = _pool(default)
    if floats:
        pool = pool + [v for v in FLOAT_VALUES if v != default]
    nd = max(1, int(len(pool) * p_default / (1 - p_default)))
    return st.sampled_from(pool + [default] * nd)


def nondefault_values(default=0, floats=False):
    pool = _pool(default)
    if floats:
        pool += [v for v in FLOAT_VALUES if v != default]
    return st.sampled_from(pool)


@st.composite
def coord_sets(draw, shape, max_elems=None, min_elems=0):
    if max_elems is None:
        max_elems = shape
    s = draw(st.sets(st.integers(0, shape - 1), min_size=min(min_elems, shape), max_size=min(max_elems, shape)))
    return sorted(s)


@st.composite
def trees(draw, shape, default, canonical=False, floats=False, max_elems=4, allow_empty_root=True,
          leaf=None):
    """Nested [[coord, child]...] over `shape` (list).  `leaf` overrides the
    leaf-value strategy."""
    d = len(shape)
    min_elems = 0 if (allow_empty_root or not canonical) else 1
    coords = draw(coord_sets(shape[0], max_elems=max_elems, min_elems=min_elems))
    out = []
    for c in coords:
        if d == 1:
            if leaf is not None:
                v = draw(leaf)
            else:
                v = draw(nondefault_values(default, floats) if canonical else values(default, floats))
            out.append([c, v])
        else:
            child = draw(trees(shape[1:], default, canonical, floats, max_elems,
                               allow_empty_root=not canonical, leaf=leaf))
            out.append([c, child])
    return out


@st.composite
def tree_specs(draw, min_depth=1, max_depth=3, max_shape=6, defaults=(0,), canonical=False,
               floats=False, max_elems=4, auth=None, shape=None, rank_ids=None):
    if shape is None:
        d = draw(st.integers(min_depth, max_depth))
        shape = [draw(st.integers(1, max_shape)) for _ in range(d)]
    else:
        shape = list(shape)
        d = len(shape)
    default = draw(st.sampled_from(list(defaults)))
    tree = draw(trees(shape, default, canonical, floats, max_elems))
    spec = {"rank_ids": list(rank_ids) if rank_ids else RANK_NAMES[:d], "shape": shape,
            "default": default, "tree": tree}
    if auth is None:
        spec["auth"] = True
    elif auth == "any":
        spec["auth"] = not draw(st.booleans())      # (Hypothesis favours False: make authoritative the common case)
    else:
        spec["auth"] = bool(auth)
    return spec


routes = st.sampled_from(["ref", "fiber", "uncompressed", "yaml", "deepcopy"])


def merge_noise(tree, noise, d):
    """Union of structures: keep tree's children, add noise-only coordinates."""
    tmap = {(tuple(c) if isinstance(c, list) else c): ch for c, ch in tree}
    nmap = {(tuple(c) if isinstance(c, list) else c): ch for c, ch in noise}
    out = []
    for c in sorted(set(tmap) | set(nmap)):
        if c in tmap and c in nmap and d > 1:
            out.append([c, merge_noise(tmap[c], nmap[c], d - 1)])
        elif c in tmap:
            out.append([c, tmap[c]])
        else:
            out.append([c, nmap[c]])
    return out


@st.composite
def content_specs(draw, shape, defaults=(0,), max_points=8, floats=False, auth=None, rank_ids=None,
                  p_noise=0.6, min_points=0):
    """TreeSpec built from a drawn content (points -> values) plus merged-in noise (explicit defaults and
    empty sub-fibers): gives fuller trees than `tree_specs`."""
    from . import model
    shape = list(shape)
    d = len(shape)
    default = draw(st.sampled_from(list(defaults)))
    pts = draw(st.dictionaries(st.tuples(*[st.integers(0, s - 1) for s in shape]),
                               nondefault_values(default, floats),
                               min_size=min(min_points, int(__import__("math").prod(shape))), max_size=max_points))
    tree = model.tree_from_content(pts, d)
    if draw(st.floats(0, 1)) < p_noise:
        noise = draw(trees(shape, default, leaf=st.just(default), max_elems=2))
        tree = merge_noise(tree, noise, d)
    spec = {"rank_ids": list(rank_ids) if rank_ids else RANK_NAMES[:d], "shape": shape, "default": default,
            "tree": tree, "auth": True}
    if auth == "any":
        spec["auth"] = not draw(st.booleans())
    elif auth is not None:
        spec["auth"] = bool(auth)
    return spec
